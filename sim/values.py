"""Value objects whose hash is chosen by the seeded scheduler (seam S1).

pyformlang accepts "any hashable" as the value of a State / Symbol / Variable /
Terminal / StackSymbol and hashes the wrapper by ``hash(value)``.  A ``V`` is such
a value: equality, ordering and ``str`` go by *name*, the hash is an integer the
scheduler picked.  So the iteration order of every set of wrappers built from
``V`` values is a scheduler decision, replayable from the case descriptor alone.
"""


class V:
    __slots__ = ("n", "h")

    def __init__(self, n, h):
        self.n = n
        self.h = h

    def __hash__(self):
        return self.h

    def __eq__(self, o):
        return isinstance(o, V) and o.n == self.n

    def __ne__(self, o):
        return not self.__eq__(o)

    def __lt__(self, o):
        return self.n < o.n

    def __le__(self, o):
        return self.n <= o.n

    def __gt__(self, o):
        return self.n > o.n

    def __ge__(self, o):
        return self.n >= o.n

    def __repr__(self):
        return self.n

    __str__ = __repr__

    # the library deep-copies transition dictionaries (to_dict); keep identity cheap
    def __deepcopy__(self, memo):
        return self

    def __copy__(self):
        return self


def key(v):
    """Canonical, hash-seed independent key of a user value (for models/logs)."""
    if isinstance(v, V):
        return "V:" + v.n
    if isinstance(v, str):
        return "s:" + v
    if isinstance(v, bool):
        return "b:" + str(v)
    if isinstance(v, int):
        return "i:" + str(v)
    if isinstance(v, float):
        return "f:" + repr(v)
    if isinstance(v, tuple):
        return "t:(" + ",".join(key(x) for x in v) + ")"
    if v is None:
        return "none"
    return "o:" + type(v).__name__ + ":" + str(v)


HASH_MODES = ("perm", "wide", "bucket", "plain")


def assign_hashes(rng, names, mode):
    """Return {name: int} for the given mode (None for 'plain')."""
    names = list(names)
    if mode == "plain":
        return None
    if mode == "perm":
        # distinct small integers: one scheduler-chosen permutation per set size
        pool = rng.sample(range(64), len(names))
        return dict(zip(names, pool))
    if mode == "wide":
        return {n: rng.getrandbits(61) for n in names}
    if mode == "bucket":
        # deliberate low-bit collisions: insertion history (probing) decides order
        base = rng.randrange(8)
        return {n: base + 8 * rng.randrange(1, 1 << 20) * rng.choice((1, 1, 2, 4))
                for n in names}
    raise ValueError(mode)


def order_signature(seq, keyf=str):
    """Permutation of ``seq`` relative to its sorted order, as a short string."""
    items = [keyf(x) for x in seq]
    rank = {k: i for i, k in enumerate(sorted(set(items)))}
    return ".".join(str(rank[k]) for k in items)
