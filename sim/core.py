"""Core of the simulator: seed derivation, outcome records, guarded library calls,
the per-worker case loop, greedy minimisation and replay.

One integer (VERIF_SEED) decides everything.  Case ``i`` of property ``P`` under
process hash seed ``k`` uses ``random.Random(derive(seed, P, k, i))`` -- a private
generator instance, never the global ``random`` state (which belongs to seam S2 and
is seeded explicitly by the properties that reach ``random``).
"""
import collections
import hashlib
import importlib
import json
import os
import random
import signal
import sys
import time
import traceback

VERIF = os.path.dirname(os.path.dirname(os.path.abspath(__file__)))


def derive(*parts):
    h = hashlib.sha256("|".join(str(p) for p in parts).encode()).digest()
    return int.from_bytes(h[:8], "big")


def hashseed_plan(seed, k):
    """The K process-level hash seeds of a run: 0 (hash randomisation off) first,
    then values derived from the seed."""
    out = [0]
    j = 0
    while len(out) < k:
        j += 1
        v = derive(seed, "hashseed", j) % 4294967295 + 1
        if v not in out:
            out.append(v)
    return out[:k]


class Rng(random.Random):
    def chance(self, p):
        return self.random() < p

    def pick(self, seq):
        return seq[self.randrange(len(seq))]

    def weighted(self, pairs):
        tot = sum(w for _, w in pairs)
        x = self.random() * tot
        for v, w in pairs:
            x -= w
            if x < 0:
                return v
        return pairs[-1][0]


def digest(obj):
    return hashlib.sha256(json.dumps(obj, sort_keys=True, default=str).encode()).hexdigest()[:16]


class CaseTimeout(BaseException):
    """Wall-clock backstop fired; never a verdict by itself (see steps.py)."""


class Failed:
    """Sentinel returned by ``Out.call`` when the library raised."""
    def __repr__(self):
        return "<FAILED>"

    def __bool__(self):
        return False


FAILED = Failed()


class Out:
    """Outcome of one simulated case."""

    def __init__(self):
        self.fails = []            # [(clause, detail)]
        self.ops = 0               # library operations executed
        self.probes = collections.Counter()
        self.faults = collections.Counter()
        self.sig = ""              # order signature actually observed
        self.shape = ""            # structure digest (hash-order independent)
        self.nontrivial = False
        self.lines = 0             # interpreter line events spent in budgeted calls
        self.trace = None          # optional op trace (C19)

    def fail(self, clause, **detail):
        self.fails.append((clause, detail))

    def probe(self, name, n=1):
        self.probes[name] += n

    def fault(self, name, n=1):
        self.faults[name] += n

    def call(self, op, fn, *a, expect=(), **kw):
        """Run a library call.  Any exception that is not in ``expect`` is a
        violation ``exception:<op>:<Type>`` (the properties promise answers, not
        crashes); the harness itself is outside this guard, so its own bugs surface
        as harness errors, never as verdicts."""
        self.ops += 1
        try:
            return fn(*a, **kw)
        except expect:
            raise
        except CaseTimeout:
            self.fail("hang:" + op)
            raise
        except RecursionError as e:
            self.fail("exception:%s:RecursionError" % op, msg=str(e)[:80])
            return FAILED
        except Exception as e:  # noqa
            tb = traceback.extract_tb(e.__traceback__)
            where = ""
            for fr in reversed(tb):
                if "/pyformlang/" in fr.filename:
                    where = "%s:%d" % (fr.filename.split("/pyformlang/")[-1], fr.lineno)
                    break
            self.fail("exception:%s:%s" % (op, type(e).__name__), msg=str(e)[:120], where=where)
            return FAILED

    def clauses(self):
        return sorted({c for c, _ in self.fails})


def load_prop(pid):
    return importlib.import_module("props." + pid.lower())


def _alarm(signum, frame):
    raise CaseTimeout()


CONFIRM_BUDGET = 60000000


def run_case(prop, case, wall=150.0, confirm=True):
    """Run one case with the wall-clock backstop armed."""
    old = signal.signal(signal.SIGALRM, _alarm)
    signal.setitimer(signal.ITIMER_REAL, wall)
    out = Out()
    timed_out = False
    try:
        try:
            prop.run(case, out)
        except CaseTimeout:
            timed_out = True
    finally:
        signal.setitimer(signal.ITIMER_REAL, 0)
        signal.signal(signal.SIGALRM, old)
    if timed_out and confirm:
        # the wall clock is never a verdict: the case is run again without it under a budget of interpreter line
        # events (a pure function of code and input).  Finishing means "slow machine", exhausting it is the verdict.
        from sim.steps import LineBudget, BudgetExceeded, OUTER_TOOL
        hung = [c for c, _ in out.fails if c.startswith("hang:")] or ["hang:unknown"]
        _busy(True)         # tells the parent that this worker is confirming a wall alarm (its deadline is extended)
        out2 = Out()
        b = LineBudget(CONFIRM_BUDGET, tool=OUTER_TOOL, jumps=True)
        old = signal.signal(signal.SIGALRM, _alarm)
        signal.setitimer(signal.ITIMER_REAL, 6 * wall)      # last resort only (e.g. a loop inside one C call)
        try:
            try:
                with b:
                    prop.run(case, out2)
            finally:
                signal.setitimer(signal.ITIMER_REAL, 0)
                signal.signal(signal.SIGALRM, old)
            out2.probe("wall_alarm_not_confirmed_slow_case")
            _busy(False)
            return out2
        except BudgetExceeded:
            out2.fails = [f for f in out.fails if not f[0].startswith("hang:")]
            out2.fail(hung[0].replace("hang:", "no-termination:"), budget_line_events=CONFIRM_BUDGET)
            return out2
        except CaseTimeout:
            pass
    if timed_out and not any(c.startswith("hang:") for c, _ in out.fails):
        out.fail("hang:unknown")
    return out


def _busy(on):
    f = os.environ.get("VERIF_BUSY_FILE")
    if not f:
        return
    try:
        if on:
            open(f, "w").close()
        elif os.path.exists(f):
            os.remove(f)
    except OSError:
        pass


def shrink(prop, case, clause, budget=400, wall=40.0, kid=None):
    """Greedy minimisation: accept a candidate iff the *same clause* still fails and
    it is attributed to the same known finding (or to none) as the original."""
    from sim import known
    t0 = time.time()
    tries = 0
    cur = case
    improved = True
    while improved and tries < budget and time.time() - t0 < wall:
        improved = False
        for cand in prop.shrink(cur):
            tries += 1
            if tries >= budget or time.time() - t0 > wall:
                break
            try:
                o = run_case(prop, cand, wall=20.0, confirm=False)
            except Exception:
                continue   # candidate outside the generator's domain: skip
            if clause in o.clauses() and known.match(prop, cand, clause) == kid:
                cur = cand
                improved = True
                break
    return cur, tries


def mem_cap():
    try:
        import resource
        cap = int(os.environ.get("VERIF_MEM_CAP_MB", "3072")) * 1024 * 1024
        resource.setrlimit(resource.RLIMIT_AS, (cap, cap))
    except (ImportError, ValueError, OSError):
        pass


def worker_main(argv):
    """python -m sim.worker PID SEED HASHSEED TIER START COUNT OUTFILE"""
    pid, seed, hs, tier, start, count, outfile = argv
    seed, hs, start, count = int(seed), int(hs), int(start), int(count)
    assert os.environ.get("PYTHONHASHSEED") == str(hs), "worker must be exec'd under its hash seed"
    # a runaway allocation in the code under test becomes a MemoryError inside the offending call (reported as
    # `exception:<op>:MemoryError`) instead of the kernel killing the worker; workers need about 50 MB (720 MB virtual)
    mem_cap()
    import pyformlang
    repo = os.environ.get("VERIF_REPO", "/repo")
    assert os.path.realpath(pyformlang.__file__).startswith(os.path.realpath(repo) + "/"), pyformlang.__file__
    prop = load_prop(pid)
    from sim import known
    t0 = time.time()
    fold = hashlib.sha256()
    res = {
        "pid": pid, "seed": seed, "hashseed": hs, "tier": tier, "start": start, "count": count,
        "cases": 0, "ops": 0, "lines": 0, "probes": collections.Counter(), "faults": collections.Counter(),
        "failures": [], "fail_counts": collections.Counter(), "distinct": {}, "sigs": collections.Counter(),
        "samples": [], "harness_errors": [],
    }
    seen_clause = {}
    wall_cap = float(os.environ.get("VERIF_WALL_CAP", "0") or 0)
    for i in range(start, start + count):
        if wall_cap and time.time() - t0 > wall_cap:
            res["truncated"] = i
            break
        rng = Rng(derive(seed, pid, hs, i))
        try:
            case = prop.gen(rng, tier)
            out = run_case(prop, case)
        except Exception as e:  # harness error: never a verdict
            res["harness_errors"].append({"index": i, "error": traceback.format_exc()[-1500:]})
            if len(res["harness_errors"]) > 5:
                break
            continue
        res["cases"] += 1
        res["ops"] += out.ops
        res["lines"] += out.lines
        res["probes"].update(out.probes)
        res["faults"].update(out.faults)
        cd = digest(case)
        fold.update(("%d|%s|%s|%d|%s\n" % (i, cd, out.sig, out.ops, ",".join(out.clauses()))).encode())
        if out.nontrivial:
            k = out.shape + "/" + out.sig
            if len(res["distinct"]) < 200000:
                res["distinct"][k] = 1
        res["sigs"][out.sig] += 1
        if len(res["samples"]) < 2 and out.nontrivial:
            res["samples"].append({"index": i, "hashseed": hs, "case": case, "order_signature": out.sig,
                                   "ops": out.ops, "probes": dict(out.probes)})
        for clause in out.clauses():
            kid = known.match(prop, case, clause)
            fk = clause + ("" if kid is None else " [" + kid + "]")
            res["fail_counts"][fk] += 1
            if fk not in seen_clause and len(seen_clause) < 12 and clause.startswith("no-termination:"):
                # confirmed by the line-event budget already; minimising a non-terminating case would spend the
                # worker's whole time allowance on re-running it, so it is reported as found
                seen_clause[fk] = 1
                res["failures"].append({"clause": clause, "known": kid, "index": i, "case": case,
                                        "original_case": case, "shrink_tries": 0,
                                        "detail": next((d for c, d in out.fails if c == clause), None)})
            elif fk not in seen_clause and len(seen_clause) < 12:
                seen_clause[fk] = 1
                try:
                    small, tries = shrink(prop, case, clause, kid=kid)
                    o2 = run_case(prop, small)
                    detail = next((d for c, d in o2.fails if c == clause), None)
                except Exception:      # a shrink candidate outside the generator's domain must not kill the worker
                    small, tries = case, -1
                    detail = next((d for c, d in out.fails if c == clause), None)
                res["failures"].append({"clause": clause, "known": kid, "index": i, "case": small,
                                        "original_case": case, "detail": detail, "shrink_tries": tries})
        if any(c.startswith("no-termination:") for c in out.clauses()):
            res["truncated"] = i + 1        # one confirmed non-termination is a verdict; more would only cost hours
            break
    _busy(False)
    res["digest"] = fold.hexdigest()
    res["wall_s"] = time.time() - t0
    res["n_sigs"] = len(res["sigs"])
    res["sigs"] = dict(collections.Counter(res["sigs"]).most_common(5))
    res["distinct"] = sorted(res["distinct"])
    res["probes"] = dict(res["probes"])
    res["faults"] = dict(res["faults"])
    res["fail_counts"] = dict(res["fail_counts"])
    with open(outfile, "w") as f:
        json.dump(res, f, default=str)
    return 0
