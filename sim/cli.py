"""./check <PID> [--tier quick|thorough] [--workers N]   |   ./check --replay <file>

Parent process: derives the hash-seed plan from VERIF_SEED, execs one fresh
interpreter per PYTHONHASHSEED, aggregates, writes evidence, prints verdict lines.

exit 0  property held on everything explored (KNOWN-FINDING lines possible)
exit 1  >=1 violation not explained by known_findings.json (VIOLATION lines)
exit 3  harness error (worker died, timeout, internal exception) -- never a verdict
"""
import argparse
import collections
import json
import os
import shutil
import subprocess
import sys
import time

from sim.core import VERIF, derive, hashseed_plan, load_prop, run_case, digest
from sim import known

PY = sys.executable
TIERS = {"quick": {"hashseeds": 16}, "thorough": {"hashseeds": 48}}


def _env(hs, repo):
    env = dict(os.environ)
    env["PYTHONHASHSEED"] = str(hs)
    env["PYTHONPATH"] = VERIF + os.pathsep + repo
    env["VERIF_REPO"] = repo
    env["PYTHONDONTWRITEBYTECODE"] = "1"
    env.pop("PYFORMLANG_VERIF", None)
    return env


def spawn_all(pid, seed, tier, hashseeds, count, workers, workdir, repo, wall_cap):
    pending = list(enumerate(hashseeds))
    running = []
    results = {}
    errors = []
    deadline = time.time() + wall_cap + 120
    while pending or running:
        while pending and len(running) < workers:
            j, hs = pending.pop(0)
            outf = os.path.join(workdir, "w%d.json" % j)
            errf = open(os.path.join(workdir, "w%d.err" % j), "w")
            env = _env(hs, repo)
            env["VERIF_WALL_CAP"] = str(wall_cap)
            env["VERIF_BUSY_FILE"] = outf + ".busy"
            p = subprocess.Popen([PY, "-m", "sim.worker", pid, str(seed), str(hs), tier, "0", str(count), outf],
                                 cwd=VERIF, env=env, stdout=errf, stderr=errf)
            running.append((j, hs, p, outf, errf))
        time.sleep(0.05)
        still = []
        for j, hs, p, outf, errf in running:
            rc = p.poll()
            if rc is None:
                # a worker that is confirming a wall alarm under the line-event budget gets the time to finish it
                if time.time() > deadline + (1500 if os.path.exists(outf + ".busy") else 0):
                    p.kill()
                    errors.append("worker hashseed=%d exceeded the wall cap (HARNESS-TIMEOUT)" % hs)
                else:
                    still.append((j, hs, p, outf, errf))
                continue
            errf.close()
            if rc != 0 or not os.path.exists(outf):
                tail = open(errf.name).read()[-1500:]
                errors.append("worker hashseed=%d exit=%s: %s" % (hs, rc, tail))
            else:
                results[j] = json.load(open(outf))
        running = still
    return [results[j] for j in sorted(results)], errors


def write_replay(pid, seed, hs, f, tag):
    d = os.path.join(VERIF, "replays", pid)
    os.makedirs(d, exist_ok=True)
    name = "%s-%s.json" % (tag, digest([f["clause"], f["case"]]))
    path = os.path.join(d, name)
    with open(path, "w") as fh:
        json.dump({"property": pid, "seed": seed, "hashseed": hs, "index": f["index"], "clause": f["clause"],
                   "known": f.get("known"), "detail": f.get("detail"), "case": f["case"],
                   "original_case": f.get("original_case")}, fh, indent=1, default=str)
    return path


def do_replay(path):
    rp = json.load(open(path))
    hs = str(rp["hashseed"])
    if os.environ.get("PYTHONHASHSEED") != hs or os.environ.get("VERIF_REEXEC") != "1":
        repo = os.environ.get("VERIF_REPO", "/repo")
        env = _env(hs, repo)
        env["VERIF_REEXEC"] = "1"
        return subprocess.call([PY, "-m", "sim.cli", "--replay", path], cwd=VERIF, env=env)
    from sim.core import mem_cap
    mem_cap()
    prop = load_prop(rp["property"])
    out = run_case(prop, rp["case"])
    if rp["clause"] in out.clauses():
        d = next(d for c, d in out.fails if c == rp["clause"])
        print("replayed: clause=%s detail=%s" % (rp["clause"], json.dumps(d, default=str)[:400]))
        kid = known.match(prop, rp["case"], rp["clause"])
        if kid:
            print("KNOWN-FINDING: property=%s %s" % (rp["property"], known.describe(kid)))
            return 0
        print("VIOLATION property=%s replay=%s" % (rp["property"], path))
        return 1
    print("NOT-REPRODUCED property=%s clause=%s (other failing clauses: %s)" % (rp["property"], rp["clause"], out.clauses()))
    return 0


def main(argv=None):
    ap = argparse.ArgumentParser()
    ap.add_argument("pid", nargs="?")
    ap.add_argument("--tier", default=os.environ.get("VERIF_TIER") or "quick")
    ap.add_argument("--replay")
    ap.add_argument("--workers", type=int, default=int(os.environ.get("VERIF_WORKERS", "16")))
    ap.add_argument("--cases", type=int, default=0, help="override cases per hash seed")
    ap.add_argument("--hashseeds", type=int, default=0)
    ap.add_argument("--no-evidence", action="store_true")
    a = ap.parse_args(argv)
    if a.replay:
        return do_replay(a.replay)
    pid = a.pid.upper()
    tier = a.tier if a.tier in TIERS else "quick"
    seed = int(os.environ.get("VERIF_SEED", "0") or 0)
    repo = os.environ.get("VERIF_REPO", "/repo")
    prop = load_prop(pid)
    nhs = a.hashseeds or getattr(prop, "HASHSEEDS", {}).get(tier) or TIERS[tier]["hashseeds"]
    count = a.cases or prop.CASES[tier]
    hashseeds = hashseed_plan(seed, nhs)
    workdir = os.path.join(VERIF, ".work", "%s-%d-%d" % (pid, os.getpid(), int(time.time())))
    os.makedirs(workdir, exist_ok=True)
    wall_cap = float(os.environ.get("VERIF_WALL_CAP", "") or getattr(prop, "WALL_CAP", {}).get(tier, 0)
                     or (240 if tier == "quick" else 3000))
    t0 = time.time()
    print("%s tier=%s VERIF_SEED=%d hashseeds=%d cases/hashseed=%d workers=%d" % (pid, tier, seed, nhs, count, a.workers))
    sys.stdout.flush()
    results, errors = spawn_all(pid, seed, tier, hashseeds, count, a.workers, workdir, repo, wall_cap)
    wall = time.time() - t0
    for r in results:
        for he in r["harness_errors"]:
            errors.append("hashseed=%d case=%d: %s" % (r["hashseed"], he["index"], he["error"]))
    # ---- aggregate -----------------------------------------------------------
    tot = collections.Counter()
    probes = collections.Counter()
    faults = collections.Counter()
    fail_counts = collections.Counter()
    distinct = set()
    samples = []
    truncated = 0
    nsigs = 0
    for r in results:
        tot["cases"] += r["cases"]
        tot["ops"] += r["ops"]
        tot["lines"] += r["lines"]
        probes.update(r["probes"])
        faults.update(r["faults"])
        fail_counts.update(r["fail_counts"])
        distinct.update("%d/%s" % (r["hashseed"], k) for k in r["distinct"])
        nsigs += r["n_sigs"]
        if len(samples) < 4:
            samples.extend(r["samples"][:1])
        if "truncated" in r:
            truncated += 1
    faults["hashseed"] = len(results)
    violations = []
    knowns = collections.OrderedDict()
    for r in results:
        for f in r["failures"]:
            if f.get("known"):
                knowns.setdefault(f["known"], []).append((r["hashseed"], f))
            else:
                violations.append((r["hashseed"], f))
    # one VIOLATION line per distinct clause (smallest case first)
    by_clause = {}
    for hs, f in violations:
        cur = by_clause.get(f["clause"])
        if cur is None or len(json.dumps(f["case"])) < len(json.dumps(cur[1]["case"])):
            by_clause[f["clause"]] = (hs, f)
    shutil.rmtree(os.path.join(VERIF, "replays", pid), ignore_errors=True)
    vlines = []
    for clause, (hs, f) in sorted(by_clause.items()):
        path = write_replay(pid, seed, hs, f, "violation")
        vlines.append((clause, path, f))
    for kid, lst in knowns.items():
        hs, f = min(lst, key=lambda x: len(json.dumps(x[1]["case"])))
        write_replay(pid, seed, hs, f, "known-" + kid)
    # ---- evidence --------------------------------------------------------------
    if not a.no_evidence and results:
        per_hour = 3600.0 / wall if wall > 0 else 0
        ev = {
            "property_id": pid, "tier": tier, "seed": seed, "level": "exploration",
            "coverage": {
                "evaluations": tot["cases"],
                "distinct_nontrivial": len(distinct),
                "rule": prop.RULE,
                "samples": samples,
                "library_operations": tot["ops"],
                "hashseeds": hashseeds,
                "faults_fired": dict(faults),
                "probes_hit": dict(probes),
                "distinct_order_signatures_per_worker_sum": nsigs,
                "simulated_runs_per_hour": int(tot["cases"] * per_hour),
                "seeds_per_hour": round(per_hour, 1),
                "simulated_time": "not applicable: the code under test has no clock; steps are reported instead",
                "steps": {"library_operations": tot["ops"], "budgeted_line_events": tot["lines"]},
                "real_components": ["pyformlang (all of it, from /repo working tree)", "networkx", "numpy"],
                "stubbed_components": [],
                "workers_truncated_by_wall_cap": truncated,
                "failing_clause_counts": dict(fail_counts),
                "known_findings_matched": sorted(knowns),
                "exhaustive": False,
            },
            "assumptions": list(getattr(prop, "ASSUMPTIONS", [])) + [
                "sampling, not proof: seeded search over workloads x iteration-order schedules",
                "reference models in /verif/models are correct (cross-checked by ./selftest oracles)"],
            "wall_s": round(wall, 2),
            "violations": len(vlines),
        }
        os.makedirs(os.path.join(VERIF, "evidence"), exist_ok=True)
        with open(os.path.join(VERIF, "evidence", pid + ".json"), "w") as fh:
            json.dump(ev, fh, indent=1, default=str)
    shutil.rmtree(workdir, ignore_errors=True)
    try:
        os.rmdir(os.path.join(VERIF, ".work"))
    except OSError:
        pass
    # ---- verdict ---------------------------------------------------------------
    print("explored %d cases, %d library operations, %d distinct non-trivial (shape,order) pairs, %.1fs"
          % (tot["cases"], tot["ops"], len(distinct), wall))
    if os.environ.get("VERIF_DIGEST"):
        for r in results:
            print("DIGEST hashseed=%d %s" % (r["hashseed"], r["digest"]))
    for kid in knowns:
        print("KNOWN-FINDING: property=%s %s" % (pid, known.describe(kid)))
    if errors:
        for e in errors[:5]:
            print("HARNESS-ERROR: " + e)
        return 3
    if truncated:
        print("NOTE: %d workers hit the wall cap before finishing their case budget (explored part reported)" % truncated)
    for clause, path, f in vlines:
        print("  clause=%s detail=%s" % (clause, json.dumps(f.get("detail"), default=str)[:300]))
        print("VIOLATION property=%s replay=%s" % (pid, path))
    return 1 if vlines else 0


if __name__ == "__main__":
    sys.exit(main())
