"""Deterministic step budget for bounded-liveness clauses.

A termination clause ("terminates without a bound when the language is finite") is
decided by a budget of interpreter LINE events (sys.monitoring, CPython 3.12): the
count is a pure function of code and input, so the verdict replays exactly.  The
wall-clock alarm in core.run_case is only a backstop and is never a verdict.
"""
import sys

_mon = sys.monitoring
_TOOL = _mon.DEBUGGER_ID
OUTER_TOOL = _mon.PROFILER_ID     # for the whole-case budget that confirms a wall-clock alarm


class BudgetExceeded(BaseException):
    pass


class LineBudget:
    """with LineBudget(n) as b: ...   b.used is the number of line events."""

    def __init__(self, budget, tool=None, jumps=False):
        self.jumps = jumps          # also count JUMP events, so that a loop written on one line is bounded too
        self.budget = budget
        self.used = 0
        self.exceeded = False
        self.tool = _TOOL if tool is None else tool

    def _cbj(self, code, offset, dest):
        return self._cb(code, 0)

    def _cb(self, code, line):
        self.used += 1
        if self.used > self.budget:
            # disarm before raising, or the unwinding frames re-enter the callback
            _mon.set_events(self.tool, 0)
            self.exceeded = True
            raise BudgetExceeded()

    def __enter__(self):
        _mon.use_tool_id(self.tool, "verif-steps-%d" % self.tool)
        _mon.register_callback(self.tool, _mon.events.LINE, self._cb)
        ev = _mon.events.LINE
        if self.jumps:
            _mon.register_callback(self.tool, _mon.events.JUMP, self._cbj)
            ev |= _mon.events.JUMP
        _mon.set_events(self.tool, ev)
        return self

    def __exit__(self, et, ev, tb):
        _mon.set_events(self.tool, 0)
        _mon.register_callback(self.tool, _mon.events.LINE, None)
        if self.jumps:
            _mon.register_callback(self.tool, _mon.events.JUMP, None)
        _mon.free_tool_id(self.tool)
        return False


def bounded(out, op, budget, fn, *a, **kw):
    """Run fn under a line budget.  Returns (finished, value).  Library exceptions
    are recorded through out.call semantics."""
    from sim.core import FAILED
    b = LineBudget(budget)
    try:
        with b:
            val = out.call(op, fn, *a, **kw)
        out.lines += b.used
        return True, val
    except BudgetExceeded:
        out.lines += b.used
        return False, None
