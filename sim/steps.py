"""Deterministic step budget for bounded-liveness clauses.

A termination clause ("terminates without a bound when the language is finite") is
decided by a budget of interpreter LINE events (sys.monitoring, CPython 3.12): the
count is a pure function of code and input, so the verdict replays exactly.  The
wall-clock alarm in core.run_case is only a backstop and is never a verdict.
"""
import sys

_mon = sys.monitoring
_TOOL = _mon.DEBUGGER_ID


class BudgetExceeded(BaseException):
    pass


class LineBudget:
    """with LineBudget(n) as b: ...   b.used is the number of line events."""

    def __init__(self, budget):
        self.budget = budget
        self.used = 0
        self.exceeded = False

    def _cb(self, code, line):
        self.used += 1
        if self.used > self.budget:
            # disarm before raising, or the unwinding frames re-enter the callback
            _mon.set_events(_TOOL, 0)
            self.exceeded = True
            raise BudgetExceeded()

    def __enter__(self):
        _mon.use_tool_id(_TOOL, "verif-steps")
        _mon.register_callback(_TOOL, _mon.events.LINE, self._cb)
        _mon.set_events(_TOOL, _mon.events.LINE)
        return self

    def __exit__(self, et, ev, tb):
        _mon.set_events(_TOOL, 0)
        _mon.register_callback(_TOOL, _mon.events.LINE, None)
        _mon.free_tool_id(_TOOL)
        return False


def bounded(out, op, budget, fn, *a, **kw):
    """Run fn under a line budget.  Returns (finished, value).  Library exceptions
    are recorded through out.call semantics."""
    from sim.core import FAILED
    b = LineBudget(budget)
    try:
        with b:
            val = out.call(op, fn, *a, **kw)
        out.lines += b.used
        return True, val
    except BudgetExceeded:
        out.lines += b.used
        return False, None
