"""Worker entry point: one fresh interpreter per PYTHONHASHSEED (seam S1a)."""
import sys
from sim.core import worker_main

if __name__ == "__main__":
    sys.exit(worker_main(sys.argv[1:]))
