"""Known findings: genuine defects of the pinned tree that are recorded, not repaired.

known_findings.json is committed and never written at run time.  An entry names a
property, the clause keys it may explain and a *predicate* (a function in the
property module, ``KNOWN[name](case, clause) -> bool``) that recognises the specific
failing inputs, where possible through a counterfactual (the same case with the
feature normalised away no longer fails).  Entries with status "fixed" suppress
nothing.
"""
import json
import os

from sim.core import VERIF

_cache = None


def load():
    global _cache
    if _cache is None:
        p = os.path.join(VERIF, "known_findings.json")
        _cache = json.load(open(p))["findings"] if os.path.exists(p) else []
    return _cache


def match(prop, case, clause):
    """id of the known finding that explains this failure, or None"""
    for e in load():
        if e.get("status") != "known" or e["property"] != prop.ID:
            continue
        if not any(clause == c or (c.endswith("*") and clause.startswith(c[:-1])) for c in e["clauses"]):
            continue
        pred = getattr(prop, "KNOWN", {}).get(e["predicate"])
        if pred is None:
            continue
        try:
            if pred(case, clause):
                return e["id"]
        except Exception:
            continue
    return None


def describe(kid):
    for e in load():
        if e["id"] == kid:
            return e["what"]
    return kid
