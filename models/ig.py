"""R-IG: exact emptiness of reduced-form indexed grammars, independent of pyformlang.

Rules:  ("E", A, a)        A[s]   -> a
        ("D", A, B, C)     A[s]   -> B[s] C[s]
        ("P", A, B, f)     A[s]   -> B[f s]
        ("C", f, A, B)     A[f s] -> B[s]

Gen(s) = non-terminals that derive a terminal word with index stack s.  Gen(f s)
depends on s only through Gen(s):  Gen(f s) = F_f(Gen(s)), where F_f(X) is the
least Y with  ends <= Y;  (C,f,A,B), B in X => A in Y;  (D,A,B,C), B,C in Y => A in Y;
(P,A,B,g), B in F_g(Y) => A in Y.   Gen(empty) is the same without consumption.
The tables F_f are computed lazily (only for arguments that arise) as one simultaneous
least fixpoint; derivations are finite, so the least fixpoint is exact.
"""
import itertools


class Ig:
    def __init__(self, rules, start="S"):
        self.rules = [tuple(r) for r in rules]
        self.start = start
        self.ends = {r[1] for r in self.rules if r[0] == "E"}
        self.dups = [r[1:] for r in self.rules if r[0] == "D"]
        self.prods = [r[1:] for r in self.rules if r[0] == "P"]
        self.cons = [r[1:] for r in self.rules if r[0] == "C"]
        self._T = None

    def _close(self, base, T, req):
        Y = set(base)
        ch = True
        while ch:
            ch = False
            for (A, B, C) in self.dups:
                if A not in Y and B in Y and C in Y:
                    Y.add(A)
                    ch = True
            fy = frozenset(Y)
            for (A, B, f) in self.prods:
                if A not in Y:
                    k = (f, fy)
                    if k not in T:
                        T[k] = frozenset()
                        req.append(k)
                    if B in T[k]:
                        Y.add(A)
                        ch = True
        return frozenset(Y)

    def solve(self):
        if self._T is not None:
            return
        T = {}
        order = []
        G = self._close(self.ends, T, order)
        ch = True
        while ch:
            ch = False
            i = 0
            while i < len(order):
                f, X = order[i]
                i += 1
                base = set(self.ends) | {A for (g, A, B) in self.cons if g == f and B in X}
                Y = self._close(base, T, order)
                if Y != T[(f, X)]:
                    T[(f, X)] = Y | T[(f, X)]
                    ch = True
            G2 = self._close(self.ends, T, order)
            if G2 != G:
                G = G2
                ch = True
        self._T = T
        self.G = G

    def gen_empty_stack(self):
        self.solve()
        return self.G

    def is_empty(self):
        return self.start not in self.gen_empty_stack()

    # -- independent witness finder: bounded explicit derivation search ---------
    def derivable_bounded(self, max_stack=3, max_steps=4000):
        """sound under-approximation: True if a derivation with index stacks of height <= max_stack
        proves the start symbol generating; computed as a plain fixpoint over (non-terminal, stack)."""
        idx = sorted({r[3] for r in self.rules if r[0] == "P"} | {r[1] for r in self.rules if r[0] == "C"})
        stacks = [()]
        for h in range(1, max_stack + 1):
            stacks += list(itertools.product(idx, repeat=h))
        gen = set()
        ch = True
        while ch:
            ch = False
            for s in stacks:
                for r in self.rules:
                    if r[0] == "E":
                        k = (r[1], s)
                        ok = True
                    elif r[0] == "D":
                        k = (r[1], s)
                        ok = (r[2], s) in gen and (r[3], s) in gen
                    elif r[0] == "P":
                        k = (r[1], s)
                        ok = len(s) < max_stack and (r[2], (r[3],) + s) in gen
                    else:
                        if not s or s[0] != r[1]:
                            continue
                        k = (r[2], s)
                        ok = (r[3], s[1:]) in gen
                    if ok and k not in gen:
                        gen.add(k)
                        ch = True
        return (self.start, ()) in gen


def product(ig, nfa, start="S", tkey=lambda t: "s:" + t):
    """reference product of an indexed grammar with an epsilon-free view of a models.fa.Nfa: the
    non-terminal (p, A, q) derives the words of A that lead the automaton from p to q (epsilon
    closures folded into the steps).  Returns (Ig over triples, set of goal triples)."""
    Q = sorted(nfa.states)
    clo = {p: nfa.eclose({p}) for p in Q}

    def step(p, a):
        return nfa.step(clo[p], a)
    rules = []
    for r in ig.rules:
        if r[0] == "E":
            for p in Q:
                if r[2] == "epsilon":
                    for q in clo[p]:
                        rules.append(("E", (p, r[1], q), "e"))
                else:
                    for q in step(p, tkey(r[2])):
                        rules.append(("E", (p, r[1], q), r[2]))
        elif r[0] == "D":
            for p in Q:
                for q in Q:
                    for m in Q:
                        rules.append(("D", (p, r[1], q), (p, r[2], m), (m, r[3], q)))
        elif r[0] == "P":
            for p in Q:
                for q in Q:
                    rules.append(("P", (p, r[1], q), (p, r[2], q), r[3]))
        else:
            for p in Q:
                for q in Q:
                    rules.append(("C", r[1], (p, r[2], q), (p, r[3], q)))
    goals = {(i, start, f) for i in nfa.starts for f in nfa.finals}
    # a word may also start with epsilon moves of the automaton: fold the closure of the start states
    goals |= {(j, start, f) for i in nfa.starts for j in clo[i] for f in nfa.finals}
    return Ig(rules, start=None), goals


def product_is_empty(ig, nfa, start="S", tkey=lambda t: "s:" + t):
    """tkey: the automaton-side key of a terminal name (plain strings by default)"""
    pig, goals = product(ig, nfa, start, tkey)
    g = pig.gen_empty_stack()
    return not (goals & g)
