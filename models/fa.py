"""R-FA: reference semantics of finite automata, independent of pyformlang.

An automaton is ``Nfa(states, alphabet, trans, starts, finals)`` with ``trans`` a set
of triples ``(p, a, q)``; ``a is None`` is an epsilon move.  States and symbols are
arbitrary hashable *keys* (strings produced by sim.values.key), so nothing in here
depends on user hashes.

Language questions are answered on *deterministic views* -- objects with
``start()``, ``step(state, a)``, ``final(state)`` -- combined lazily (subset
construction, complement, product), and ``distinguish`` decides equality of two
views exactly by a breadth-first walk of the pair graph, returning a shortest
distinguishing word.
"""
from collections import deque


class Nfa:
    def __init__(self, states, alphabet, trans, starts, finals):
        self.states = frozenset(states)
        self.alphabet = frozenset(alphabet)
        self.trans = frozenset(trans)
        self.starts = frozenset(starts)
        self.finals = frozenset(finals)
        self._eps = {}
        self._sym = {}
        for p, a, q in self.trans:
            if a is None:
                self._eps.setdefault(p, set()).add(q)
            else:
                self._sym.setdefault((p, a), set()).add(q)
        self._ecache = {}

    # -- basic semantics -------------------------------------------------
    def eclose(self, S):
        S = frozenset(S)
        r = self._ecache.get(S)
        if r is not None:
            return r
        seen = set(S)
        st = list(S)
        while st:
            p = st.pop()
            for q in self._eps.get(p, ()):
                if q not in seen:
                    seen.add(q)
                    st.append(q)
        r = frozenset(seen)
        self._ecache[S] = r
        return r

    def step(self, S, a):
        nxt = set()
        for p in S:
            nxt |= self._sym.get((p, a), set())
        return self.eclose(nxt)

    def accepts(self, word):
        S = self.eclose(self.starts)
        for a in word:
            S = self.step(S, a)
            if not S:
                return False
        return bool(S & self.finals)

    # -- structural predicates --------------------------------------------
    def reachable(self):
        seen = set(self.starts)
        st = list(seen)
        succ = {}
        for p, a, q in self.trans:
            succ.setdefault(p, set()).add(q)
        while st:
            p = st.pop()
            for q in succ.get(p, ()):
                if q not in seen:
                    seen.add(q)
                    st.append(q)
        return seen

    def coreachable(self):
        pred = {}
        for p, a, q in self.trans:
            pred.setdefault(q, set()).add(p)
        seen = set(self.finals)
        st = list(seen)
        while st:
            q = st.pop()
            for p in pred.get(q, ()):
                if p not in seen:
                    seen.add(p)
                    st.append(p)
        return seen

    def is_empty(self):
        return not (self.reachable() & self.finals)

    def has_reachable_cycle(self):
        """a cycle (of any edges, epsilon included) reachable from a start state"""
        reach = self.reachable()
        succ = {}
        for p, a, q in self.trans:
            if p in reach:
                succ.setdefault(p, set()).add(q)
        WHITE, GREY, BLACK = 0, 1, 2
        col = {}
        for s in sorted(reach):
            if col.get(s, WHITE) != WHITE:
                continue
            stack = [(s, iter(sorted(succ.get(s, ()))))]
            col[s] = GREY
            while stack:
                v, it = stack[-1]
                adv = False
                for w in it:
                    c = col.get(w, WHITE)
                    if c == GREY:
                        return True
                    if c == WHITE:
                        col[w] = GREY
                        stack.append((w, iter(sorted(succ.get(w, ())))))
                        adv = True
                        break
                if not adv:
                    col[v] = BLACK
                    stack.pop()
        return False

    def is_structurally_deterministic(self):
        """<=1 start state, <=1 successor per (state, symbol), no epsilon move to
        another state (the wording of C04)."""
        if len(self.starts) > 1:
            return False
        for (p, a), qs in self._sym.items():
            if len(qs) > 1:
                return False
        for p, qs in self._eps.items():
            if qs - {p}:
                return False
        return True

    def language_is_finite(self):
        """no cycle with at least one symbol edge... careful: an epsilon-only cycle
        does not make the language infinite; a cycle through useful states that
        contains a symbol edge does."""
        useful = self.reachable() & self.coreachable()
        succ = {}
        for p, a, q in self.trans:
            if p in useful and q in useful:
                succ.setdefault(p, set()).add((a, q))
        # SCCs (Tarjan, iterative via recursion-safe small graphs)
        idx = {}
        low = {}
        onst = set()
        st = []
        comp = {}
        counter = [0]
        ncomp = [0]

        def sc(v):
            idx[v] = low[v] = counter[0]
            counter[0] += 1
            st.append(v)
            onst.add(v)
            for a, w in succ.get(v, ()):
                if w not in idx:
                    sc(w)
                    low[v] = min(low[v], low[w])
                elif w in onst:
                    low[v] = min(low[v], idx[w])
            if low[v] == idx[v]:
                while True:
                    w = st.pop()
                    onst.discard(w)
                    comp[w] = ncomp[0]
                    if w == v:
                        break
                ncomp[0] += 1

        for v in sorted(useful):
            if v not in idx:
                sc(v)
        for p in useful:
            for a, q in succ.get(p, ()):
                if a is not None and comp[p] == comp[q]:
                    return False
        return True

    def words_upto(self, n, alphabet=None):
        alphabet = sorted(self.alphabet if alphabet is None else alphabet)
        res = set()
        start = self.eclose(self.starts)
        stack = [(start, ())]
        while stack:
            S, w = stack.pop()
            if S & self.finals:
                res.add(w)
            if len(w) == n:
                continue
            for a in alphabet:
                T = self.step(S, a)
                if T:
                    stack.append((T, w + (a,)))
        return res

    def all_words(self, cap=20000):
        """the whole language when it is finite (caller checked)"""
        n = len(self.states) + 1
        return self.words_upto(n)

    def digest_struct(self):
        return (tuple(sorted(self.states)), tuple(sorted(self.alphabet)),
                tuple(sorted((p, "" if a is None else a, q, a is None) for p, a, q in self.trans)),
                tuple(sorted(self.starts)), tuple(sorted(self.finals)))


# ---------------------------------------------------------------------------
# deterministic views

class Sub:
    """subset construction of an Nfa, on the fly"""

    def __init__(self, nfa):
        self.n = nfa
        self.alphabet = nfa.alphabet

    def start(self):
        return self.n.eclose(self.n.starts)

    def step(self, S, a):
        return self.n.step(S, a) if S else S

    def final(self, S):
        return bool(S & self.n.finals)


class Not:
    """complement relative to sigma: words over sigma* not accepted by inner; a
    word that uses a symbol outside sigma is in neither."""
    OUT = ("#OUT#",)

    def __init__(self, inner, sigma):
        self.i = inner
        self.sigma = frozenset(sigma)
        self.alphabet = self.sigma

    def start(self):
        return self.i.start()

    def step(self, s, a):
        if s is Not.OUT or a not in self.sigma:
            return Not.OUT
        return self.i.step(s, a)

    def final(self, s):
        return s is not Not.OUT and not self.i.final(s)


class Bin:
    def __init__(self, l, r, f):
        self.l, self.r, self.f = l, r, f
        self.alphabet = frozenset(l.alphabet) | frozenset(r.alphabet)

    def start(self):
        return (self.l.start(), self.r.start())

    def step(self, s, a):
        return (self.l.step(s[0], a), self.r.step(s[1], a))

    def final(self, s):
        return self.f(self.l.final(s[0]), self.r.final(s[1]))


def And(l, r):
    return Bin(l, r, lambda x, y: x and y)


def Or(l, r):
    return Bin(l, r, lambda x, y: x or y)


def Diff(l, r):
    return Bin(l, r, lambda x, y: x and not y)


class WordSet:
    """finite language given as a set of tuples (prefix-tree view)"""

    def __init__(self, words):
        self.words = frozenset(tuple(w) for w in words)
        self.prefixes = frozenset(w[:i] for w in self.words for i in range(len(w) + 1))
        self.alphabet = frozenset(a for w in self.words for a in w)

    def start(self):
        return ()

    def step(self, s, a):
        if s is None:
            return None
        t = s + (a,)
        return t if t in self.prefixes else None

    def final(self, s):
        return s is not None and s in self.words


def distinguish(v1, v2, alphabet, limit=200000):
    """None if the two views accept the same words over ``alphabet``; otherwise a
    shortest word accepted by exactly one of them."""
    alphabet = sorted(alphabet)
    s = (v1.start(), v2.start())
    seen = {s}
    dq = deque([(s, ())])
    while dq:
        (a, b), w = dq.popleft()
        if v1.final(a) != v2.final(b):
            return w
        for x in alphabet:
            t = (v1.step(a, x), v2.step(b, x))
            if t not in seen:
                seen.add(t)
                if len(seen) > limit:
                    raise RuntimeError("distinguish: state limit")
                dq.append((t, w + (x,)))
    return None


def equivalent(n1, n2, extra=("#foreign#",)):
    alpha = set(n1.alphabet) | set(n2.alphabet) | set(extra)
    return distinguish(Sub(n1), Sub(n2), alpha)


# ---------------------------------------------------------------------------
# reference constructions that are easier as automata

def reverse(n):
    return Nfa(n.states, n.alphabet, {(q, a, p) for p, a, q in n.trans}, n.finals, n.starts)


def _tag(n, t):
    f = lambda s: (t, s)
    return (set(map(f, n.states)), {(f(p), a, f(q)) for p, a, q in n.trans},
            set(map(f, n.starts)), set(map(f, n.finals)))


def union(n1, n2):
    s1, t1, i1, f1 = _tag(n1, 1)
    s2, t2, i2, f2 = _tag(n2, 2)
    return Nfa(s1 | s2, n1.alphabet | n2.alphabet, t1 | t2, i1 | i2, f1 | f2)


def concat(n1, n2):
    s1, t1, i1, f1 = _tag(n1, 1)
    s2, t2, i2, f2 = _tag(n2, 2)
    br = {(p, None, q) for p in f1 for q in i2}
    return Nfa(s1 | s2, n1.alphabet | n2.alphabet, t1 | t2 | br, i1, f2)


def star(n):
    s1, t1, i1, f1 = _tag(n, 1)
    new = (0, "star")
    br = {(new, None, q) for q in i1} | {(p, None, new) for p in f1}
    return Nfa(s1 | {new}, n.alphabet, t1 | br, {new}, {new})


def minimal_dfa_size(n, alphabet=None):
    """number of states of the minimal *trim partial* DFA (reachable, non-dead
    classes) of L(n) -- Moore refinement on the reachable subset automaton."""
    alphabet = sorted(n.alphabet if alphabet is None else alphabet)
    sub = Sub(n)
    start = sub.start()
    states = {start}
    dq = deque([start])
    delta = {}
    while dq:
        S = dq.popleft()
        for a in alphabet:
            T = sub.step(S, a)
            delta[(S, a)] = T
            if T not in states:
                states.add(T)
                dq.append(T)
    part = {S: (1 if sub.final(S) else 0) for S in states}
    while True:
        sigs = {S: (part[S],) + tuple(part[delta[(S, a)]] for a in alphabet) for S in states}
        ids = {}
        newp = {}
        for S in states:
            newp[S] = ids.setdefault(sigs[S], len(ids))
        if len(set(newp.values())) == len(set(part.values())):
            part = newp
            break
        part = newp
    # dead classes: no final reachable
    classes = set(part.values())
    cl_final = {part[S] for S in states if sub.final(S)}
    cl_succ = {}
    for (S, a), T in delta.items():
        cl_succ.setdefault(part[S], set()).add(part[T])
    live = set(cl_final)
    ch = True
    while ch:
        ch = False
        for c in classes:
            if c not in live and cl_succ.get(c, set()) & live:
                live.add(c)
                ch = True
    return len(live)
