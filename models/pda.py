"""R-PDA: reference semantics of pushdown automata, independent of pyformlang.

``Pda(states, stack, trans, q0, z0, finals)``; a transition is
``(q, a|None, X, r, gamma)`` -- in state q reading a (None = epsilon) with X on top,
go to r and replace X by gamma (gamma[0] becomes the new top).

``solve(n)`` computes, exactly for words of length <= n (stack-growing epsilon cycles
included, since everything is a least fixpoint over length-bounded word sets):
  R[q, X, q'] = words read while popping X (and all it pushed) from q ending in q'
  P[q, X]     = {(w, q')}: words read from (q, X...) reaching state q' with any stack
"""


class Pda:
    def __init__(self, states, stack, trans, q0, z0, finals):
        self.states = sorted(set(states))
        self.stack = sorted(set(stack))
        self.trans = sorted(set((q, a, X, r, tuple(g)) for q, a, X, r, g in trans),
                            key=lambda t: (t[0], "" if t[1] is None else "~" + t[1], t[2], t[3], t[4]))
        self.q0 = q0
        self.z0 = z0
        self.finals = set(finals)
        self._n = None

    def solve(self, n):
        if self._n == n:
            return
        Q = self.states
        R = {}

        def cat(A, B):
            return {u + v for u in A for v in B if len(u) + len(v) <= n}

        def pop_seq(r, gamma):
            cur = {r: {()}}
            for Y in gamma:
                nxt = {}
                for st, ws in cur.items():
                    for q2 in Q:
                        ws2 = R.get((st, Y, q2))
                        if ws2:
                            c = cat(ws, ws2)
                            if c:
                                nxt.setdefault(q2, set()).update(c)
                cur = nxt
                if not cur:
                    break
            return cur
        ch = True
        while ch:
            ch = False
            for (q, a, X, r, gamma) in self.trans:
                pre = {(a,)} if a is not None else {()}
                if n == 0 and a is not None:
                    continue
                for q2, ws in pop_seq(r, gamma).items():
                    c = cat(pre, ws)
                    old = R.setdefault((q, X, q2), set())
                    if not c <= old:
                        old |= c
                        ch = True
        self.R = R
        P = {(q, X): {((), q)} for q in Q for X in self.stack}
        ch = True
        while ch:
            ch = False
            for (q, a, X, r, gamma) in self.trans:
                pre = (a,) if a is not None else ()
                if len(pre) > n:
                    continue
                new = set()
                cur = {r: {()}}
                if not gamma:
                    new.add((pre, r))
                for Y in gamma:
                    for st, ws in cur.items():
                        for (w2, q2) in P.get((st, Y), ()):
                            for w in ws:
                                if len(pre) + len(w) + len(w2) <= n:
                                    new.add((pre + w + w2, q2))
                    nxt = {}
                    for st, ws in cur.items():
                        for q2 in Q:
                            ws2 = R.get((st, Y, q2))
                            if ws2:
                                c = cat(ws, ws2)
                                if c:
                                    nxt.setdefault(q2, set()).update(c)
                    cur = nxt
                if gamma:
                    for st, ws in cur.items():
                        for w in ws:
                            if len(pre) + len(w) <= n:
                                new.add((pre + w, st))
                old = P.setdefault((q, X), {((), q)})
                if not new <= old:
                    old |= new
                    ch = True
        self.P = P
        self._n = n

    def lang_empty_stack(self, n):
        if self.q0 is None or self.z0 is None:
            return set()
        self.solve(n)
        res = set()
        for q in self.states:
            res |= self.R.get((self.q0, self.z0, q), set())
        return res

    def lang_final_state(self, n):
        if self.q0 is None or self.z0 is None:
            return set()
        self.solve(n)
        return {w for (w, q) in self.P.get((self.q0, self.z0), {((), self.q0)}) if q in self.finals}

    # -- independent cross-check: explicit configuration search with a height bound --
    def bfs(self, n, height=6, limit=200000):
        """(words accepted by empty stack, words accepted by final state) found by explicit search over
        configurations with stack height <= `height`: a sound under-approximation, used as a witness
        finder to cross-check solve()."""
        if self.q0 is None or self.z0 is None:
            return set(), set()
        start = (self.q0, (self.z0,), ())
        seen = {start}
        todo = [start]
        le, lf = set(), set()
        by = {}
        for t in self.trans:
            by.setdefault((t[0], t[2]), []).append(t)
        while todo:
            q, st, w = todo.pop()
            if q in self.finals:
                lf.add(w)
            if not st:
                le.add(w)
                continue
            for (_, a, X, r, g) in by.get((q, st[0]), ()):
                w2 = w if a is None else w + (a,)
                if len(w2) > n:
                    continue
                st2 = g + st[1:]
                if len(st2) > height:
                    continue
                c = (r, st2, w2)
                if c not in seen:
                    seen.add(c)
                    if len(seen) > limit:
                        return le, lf
                    todo.append(c)
        return le, lf
