"""R-FS: feature structures as union-find over nodes; unification = merge.

A description is a nested dict  feature -> value, with value one of
  "sg" (atomic string) | None (unspecified) | dict (nested) | ["var", name] (shared).
``unify(d1, d2)`` returns False on an atomic clash, otherwise the canonical form of
the merged structure: (values by path, partition of paths by node identity).
"""


def unify(d1, d2, maxdepth=4):
    parent, val, kids = {}, {}, {}
    cnt = [0]

    def new():
        cnt[0] += 1
        n = cnt[0]
        parent[n] = n
        val[n] = None
        kids[n] = {}
        return n

    def find(x):
        while parent[x] != x:
            parent[x] = parent[parent[x]]
            x = parent[x]
        return x

    def mk(d, vars_):
        n = new()
        for f in sorted(d):
            v = d[f]
            if isinstance(v, dict):
                kids[n][f] = mk(v, vars_)
            elif isinstance(v, (list, tuple)):
                if v[1] not in vars_:
                    vars_[v[1]] = new()
                kids[n][f] = vars_[v[1]]
            else:
                c = new()
                val[c] = v
                kids[n][f] = c
        return n

    def union(a, b):
        a, b = find(a), find(b)
        if a == b:
            return True
        if val[a] is not None and val[b] is not None and val[a] != val[b]:
            return False
        if (val[a] is not None and kids[b]) or (val[b] is not None and kids[a]):
            return None      # ill-typed: atomic against complex -- outside the property's domain
        parent[b] = a
        if val[a] is None:
            val[a] = val[b]
        for f, c in list(kids[b].items()):
            if f in kids[a]:
                r = union(kids[a][f], c)
                if r is not True:
                    return r
            else:
                kids[a][f] = c
        return True
    r1 = mk(d1, {})
    r2 = mk(d2, {})
    ok = union(r1, r2)
    if ok is not True:
        return ok
    paths = {}

    def walk(n, p):
        n = find(n)
        paths[p] = (n, val[n])
        if len(p) > maxdepth:
            return
        for f, c in kids[n].items():
            walk(c, p + (f,))
    walk(r1, ())
    vals = {p: v for p, (n, v) in paths.items() if p}
    eq = frozenset(frozenset(q for q, (m, _) in paths.items() if m == n and q) for p, (n, _) in paths.items() if p)
    return vals, eq
