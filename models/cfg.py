"""R-CFG: reference semantics of context-free grammars, independent of pyformlang.

A grammar is ``Cfg(start, prods)`` with ``prods`` a collection of ``(head, body)``,
``body`` a tuple of symbols; a symbol is ``('V', key)`` (variable) or ``('T', key)``
(terminal).  Everything is least fixpoints over plain Python sets.
"""
import itertools


def isvar(x):
    return x[0] == "V"


class Cfg:
    def __init__(self, start, prods, variables=(), terminals=()):
        self.start = start
        self.prods = sorted({(h, tuple(b)) for h, b in prods})
        self.variables = set(variables) | {h for h, _ in self.prods} | \
            {x for _, b in self.prods for x in b if isvar(x)}
        if start is not None:
            self.variables.add(start)
        self.terminals = set(terminals) | {x for _, b in self.prods for x in b if not isvar(x)}
        self.by_head = {}
        for h, b in self.prods:
            self.by_head.setdefault(h, []).append(b)

    # -- symbol classes -------------------------------------------------------
    def generating_vars(self):
        gen = set()
        ch = True
        while ch:
            ch = False
            for h, b in self.prods:
                if h not in gen and all((not isvar(x)) or x in gen for x in b):
                    gen.add(h)
                    ch = True
        return gen

    def generating(self):
        """symbols that derive some terminal word (terminals of the grammar included)"""
        return self.generating_vars() | set(self.terminals)

    def nullable(self):
        nul = set()
        ch = True
        while ch:
            ch = False
            for h, b in self.prods:
                if h not in nul and all(x in nul for x in b):
                    nul.add(h)
                    ch = True
        return nul

    def reachable(self):
        """symbols occurring in a sentential form derivable from the start symbol"""
        if self.start is None:
            return set()
        seen = {self.start}
        st = [self.start]
        while st:
            v = st.pop()
            for b in self.by_head.get(v, ()):
                for x in b:
                    if x not in seen:
                        seen.add(x)
                        if isvar(x):
                            st.append(x)
        return seen

    def is_empty(self):
        return self.start not in self.generating_vars()

    def useful_vars(self):
        gen = self.generating_vars()
        if self.start not in gen:
            return set()
        seen = {self.start}
        st = [self.start]
        while st:
            v = st.pop()
            for b in self.by_head.get(v, ()):
                if all((not isvar(x)) or x in gen for x in b):
                    for x in b:
                        if isvar(x) and x not in seen:
                            seen.add(x)
                            st.append(x)
        return seen

    def derives_nonempty(self):
        """variables deriving at least one non-empty terminal word"""
        gen = self.generating_vars()
        ne = set()
        ch = True
        while ch:
            ch = False
            for h, b in self.prods:
                if h in ne or not all((not isvar(x)) or x in gen for x in b):
                    continue
                if any((not isvar(x)) or x in ne for x in b):
                    ne.add(h)
                    ch = True
        return ne

    def is_finite(self):
        use = self.useful_vars()
        gen = self.generating_vars()
        ne = self.derives_nonempty()
        edges = {}    # A -> set of (B, growing)
        for h, b in self.prods:
            if h not in use or not all((not isvar(x)) or x in gen for x in b):
                continue
            for i, x in enumerate(b):
                if isvar(x) and x in use:
                    rest = b[:i] + b[i + 1:]
                    grow = any((not isvar(y)) or y in ne for y in rest)
                    edges.setdefault(h, set()).add((x, grow))
        # reach[A] = vars reachable from A by >=1 edge
        reach = {a: {b for b, _ in edges.get(a, ())} for a in use}
        ch = True
        while ch:
            ch = False
            for a in use:
                new = set()
                for b in reach[a]:
                    new |= reach.get(b, set())
                if not new <= reach[a]:
                    reach[a] |= new
                    ch = True
        for a in use:
            for b, grow in edges.get(a, ()):
                if grow and (a == b or a in reach.get(b, ())):
                    return False
        return True

    # -- bounded languages ----------------------------------------------------
    def lang_upto(self, n):
        """{variable: set of terminal words (tuples of terminal keys) of length <= n}"""
        L = {v: set() for v in self.variables}
        ch = True
        while ch:
            ch = False
            for h, b in self.prods:
                cur = {()}
                for x in b:
                    if isvar(x):
                        lx = L[x]
                        cur = {u + v for u in cur for v in lx if len(u) + len(v) <= n}
                    else:
                        cur = {u + (x[1],) for u in cur if len(u) < n}
                    if not cur:
                        break
                if cur and not cur <= L[h]:
                    L[h] |= cur
                    ch = True
        return L

    def words_upto(self, n):
        if self.start is None:
            return set()
        return self.lang_upto(n).get(self.start, set())

    def useful_subgrammar(self):
        use = self.useful_vars()
        return Cfg(self.start, [(h, b) for h, b in self.prods
                                if h in use and all((not isvar(x)) or x in use for x in b)])

    def all_words_if_finite(self):
        """the whole language of a finite-language grammar (caller checked is_finite()).  The longest
        word is found by longest-path relaxation over the useful sub-grammar (no growing cycle exists
        there, so |V|+1 rounds suffice), then the language is enumerated up to that length -- on the
        useful sub-grammar only, since useless variables may have infinite languages."""
        sub = self.useful_subgrammar()
        if sub.is_empty():
            return set()
        ml = {v: None for v in sub.variables}
        for _ in range(len(sub.variables) + 2):
            for h, b in sub.prods:
                tot = 0
                for x in b:
                    if isvar(x):
                        if ml[x] is None:
                            tot = None
                            break
                        tot += ml[x]
                    else:
                        tot += 1
                if tot is not None and (ml[h] is None or tot > ml[h]):
                    ml[h] = tot
        return sub.words_upto(ml[sub.start] or 0)

    def digest(self):
        return (self.start, tuple(self.prods))


def words_over(alphabet, n):
    alphabet = sorted(alphabet)
    for ln in range(n + 1):
        for w in itertools.product(alphabet, repeat=ln):
            yield w


# ---------------------------------------------------------------------------
# R-LL1

def first_follow(g, end="$"):
    """textbook FIRST (per variable, with None for epsilon) and FOLLOW (with `end`)"""
    nul = g.nullable()
    first = {v: set() for v in g.variables}
    ch = True
    while ch:
        ch = False
        for h, b in g.prods:
            add = set()
            for x in b:
                if isvar(x):
                    add |= first[x]
                    if x not in nul:
                        break
                else:
                    add.add(x)
                    break
            if not add <= first[h]:
                first[h] |= add
                ch = True
    follow = {v: set() for v in g.variables}
    if g.start is not None:
        follow[g.start].add(end)
    ch = True
    while ch:
        ch = False
        for h, b in g.prods:
            for i, x in enumerate(b):
                if not isvar(x):
                    continue
                add = set()
                rest_nullable = True
                for y in b[i + 1:]:
                    if isvar(y):
                        add |= first[y]
                        if y not in nul:
                            rest_nullable = False
                            break
                    else:
                        add.add(y)
                        rest_nullable = False
                        break
                if rest_nullable:
                    add |= follow[h]
                if not add <= follow[x]:
                    follow[x] |= add
                    ch = True
    return nul, first, follow


def first_of_body(b, nul, first):
    out = set()
    for x in b:
        if isvar(x):
            out |= first[x]
            if x not in nul:
                return out, False
        else:
            out.add(x)
            return out, False
    return out, True


def is_ll1(g, end="$"):
    nul, first, follow = first_follow(g, end)
    for v, bodies in g.by_head.items():
        seen = {}
        for b in bodies:
            f, eps = first_of_body(b, nul, first)
            pred = set(f)
            if eps:
                pred |= follow[v]
            for t in pred:
                if t in seen and seen[t] != b:
                    return False
                seen[t] = b
    return True


# ---------------------------------------------------------------------------
# R-TREE

def validate_tree(tree, g, word, root=None, allow_var_leaf_as_eps=True):
    """tree = (symbol, [children]) ; returns None if valid else a reason string.
    Every inner node with its children must be a production; the frontier must spell
    ``word`` (a childless variable node counts as an epsilon derivation and needs an
    epsilon production)."""
    prods = {(h, b) for h, b in g.prods}
    if root is not None and tree[0] != root:
        return "root is %r not %r" % (tree[0], root)
    frontier = []
    stack = [tree]
    order = []
    # iterative preorder, left to right
    def walk(t, depth=0):
        if depth > 200:
            return "tree too deep / cyclic"
        sym, kids = t
        if not kids:
            if isvar(sym):
                if (sym, ()) not in prods:
                    return "variable leaf %r without epsilon production" % (sym,)
            else:
                frontier.append(sym[1])
            return None
        if not isvar(sym):
            return "terminal %r has children" % (sym,)
        body = tuple(k[0] for k in kids)
        if (sym, body) not in prods:
            return "node %r -> %r is not a production" % (sym, body)
        for k in kids:
            r = walk(k, depth + 1)
            if r:
                return r
        return None
    r = walk(tree)
    if r:
        return r
    if tuple(frontier) != tuple(word):
        return "frontier %r does not spell %r" % (frontier, list(word))
    return None


def validate_derivation(steps, g, word, root, leftmost=True):
    """steps: list of sentential forms (lists of symbols)"""
    prods = {(h, b) for h, b in g.prods}
    if not steps:
        return "empty derivation"
    if list(steps[0]) != [root]:
        return "does not start at the root symbol: %r" % (steps[0],)
    for i in range(len(steps) - 1):
        cur, nxt = list(steps[i]), list(steps[i + 1])
        idxs = [j for j, x in enumerate(cur) if isvar(x)]
        if not idxs:
            return "step %d rewrites a form without variables" % i
        j = idxs[0] if leftmost else idxs[-1]
        k = len(nxt) - (len(cur) - 1)
        if k < 0:
            return "step %d is not a single rewrite" % i
        if cur[:j] != nxt[:j] or cur[j + 1:] != nxt[j + k:]:
            return "step %d does not rewrite the %s variable" % (i, "leftmost" if leftmost else "rightmost")
        if (cur[j], tuple(nxt[j:j + k])) not in prods:
            return "step %d uses %r -> %r which is not a production" % (i, cur[j], nxt[j:j + k])
    last = steps[-1]
    if any(isvar(x) for x in last):
        return "last form still has variables"
    if [x[1] for x in last] != list(word):
        return "derivation ends in %r not %r" % (last, list(word))
    return None
