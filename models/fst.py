"""R-FST: reference semantics of finite-state transducers.

``Fst(states, trans, starts, finals)``; a transition is ``(p, a|None, q, out)`` with
``out`` a tuple of output symbols.  ``outputs(w)`` is the set of output words of all
paths from a start to a final state reading ``w`` (epsilon-input moves are free).
Terminates whenever every epsilon-input cycle writes nothing (``writing_eps_cycle``
tells), which is the domain the property states.
"""


class TooLarge(Exception):
    """the relation restricted to this input has more configurations than the reference is willing to walk"""


class Fst:
    def __init__(self, states, trans, starts, finals):
        self.trans = sorted({(p, a, q, tuple(o)) for p, a, q, o in trans},
                            key=lambda t: (str(t[0]), "" if t[1] is None else "~" + str(t[1]), str(t[2]), tuple(map(repr, t[3]))))
        self.states = set(states) | {t[0] for t in self.trans} | {t[2] for t in self.trans} | set(starts) | set(finals)
        self.starts = set(starts)
        self.finals = set(finals)
        self.by = {}
        for p, a, q, o in self.trans:
            self.by.setdefault((p, a), []).append((q, o))

    def writing_eps_cycle(self):
        """is there an epsilon-input cycle on which some move writes a symbol?"""
        eps = [(p, q, bool(o)) for p, a, q, o in self.trans if a is None]
        succ = {}
        for p, q, w in eps:
            succ.setdefault(p, set()).add(q)

        def reach(s):
            seen = set()
            st = [s]
            while st:
                v = st.pop()
                for w in succ.get(v, ()):
                    if w not in seen:
                        seen.add(w)
                        st.append(w)
            return seen
        for p, q, w in eps:
            if w and (p == q or p in reach(q)):
                return True
        return False

    def outputs(self, word, limit=20000):
        word = tuple(word)
        seen = set()
        todo = [(s, 0, ()) for s in sorted(self.starts, key=str)]
        res = set()
        while todo:
            c = todo.pop()
            if c in seen:
                continue
            seen.add(c)
            if len(seen) > limit:
                raise TooLarge()
            q, i, out = c
            if i == len(word) and q in self.finals:
                res.add(out)
            if i < len(word):
                for r, o in self.by.get((q, word[i]), ()):
                    todo.append((r, i + 1, out + o))
            for r, o in self.by.get((q, None), ()):
                todo.append((r, i, out + o))
        return res

    def configurations(self, word, limit=200000):
        """number of distinct (state, position, output) configurations reachable on `word` (the work any correct
        exhaustive translation has to do; used to scale the step budget of the real translate)"""
        word = tuple(word)
        seen = set()
        todo = [(s, 0, ()) for s in self.starts]
        while todo:
            c = todo.pop()
            if c in seen:
                continue
            seen.add(c)
            if len(seen) > limit:
                raise TooLarge()
            q, i, out = c
            if i < len(word):
                for r, o in self.by.get((q, word[i]), ()):
                    todo.append((r, i + 1, out + o))
            for r, o in self.by.get((q, None), ()):
                todo.append((r, i, out + o))
        return len(seen)

    def eps_relation_has_output(self):
        return any(o for o in self.outputs(()))


def _tag(f, t):
    g = lambda s: (t, s)
    return ({g(s) for s in f.states}, [(g(p), a, g(q), o) for p, a, q, o in f.trans],
            {g(s) for s in f.starts}, {g(s) for s in f.finals})


def union(f1, f2):
    s1, t1, i1, e1 = _tag(f1, 1)
    s2, t2, i2, e2 = _tag(f2, 2)
    return Fst(s1 | s2, t1 + t2, i1 | i2, e1 | e2)


def concat(f1, f2):
    s1, t1, i1, e1 = _tag(f1, 1)
    s2, t2, i2, e2 = _tag(f2, 2)
    br = [(p, None, q, ()) for p in e1 for q in i2]
    return Fst(s1 | s2, t1 + t2 + br, i1, e2)


def star(f):
    s1, t1, i1, e1 = _tag(f, 1)
    n = (0, "star")
    br = [(n, None, q, ()) for q in i1] + [(p, None, n, ()) for p in e1]
    return Fst(s1 | {n}, t1 + br, {n}, {n})
