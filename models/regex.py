"""R-RE: regular expressions as tuple trees, independent of pyformlang.

  ('sym', a) | ('eps',) | ('empty',) | ('cat', l, r) | ('alt', l, r) | ('star', x)

``to_nfa`` is an own Thompson-style construction into models.fa.Nfa (so that exact
equivalence can be decided); ``matches`` is a Brzozowski-derivative matcher used to
cross-check it; ``parse`` is a recursive-descent parser of the documented syntax
(tokens, '*' > concatenation (space or '.') > union ('|' or '+'), parentheses,
'epsilon' / '$', backslash escapes).
"""
from models.fa import Nfa


def to_nfa(t):
    cnt = [0]
    trans = set()

    def new():
        cnt[0] += 1
        return "r%d" % cnt[0]

    def go(t, s, f):
        k = t[0]
        if k == "sym":
            trans.add((s, t[1], f))
        elif k == "eps":
            trans.add((s, None, f))
        elif k == "empty":
            pass
        elif k == "cat":
            m = new()
            go(t[1], s, m)
            go(t[2], m, f)
        elif k == "alt":
            go(t[1], s, f)
            go(t[2], s, f)
        elif k == "star":
            a, b = new(), new()
            trans.add((s, None, a))
            trans.add((b, None, a))
            trans.add((a, None, f))
            go(t[1], a, b)
        else:
            raise ValueError(k)
    s, f = new(), new()
    go(t, s, f)
    states = {s, f} | {p for p, _, _ in trans} | {q for _, _, q in trans}
    return Nfa(states, {a for _, a, _ in trans if a is not None}, trans, {s}, {f})


def nullable(t):
    k = t[0]
    if k in ("eps", "star"):
        return True
    if k in ("sym", "empty"):
        return False
    if k == "cat":
        return nullable(t[1]) and nullable(t[2])
    return nullable(t[1]) or nullable(t[2])


def deriv(t, a):
    k = t[0]
    if k in ("eps", "empty"):
        return ("empty",)
    if k == "sym":
        return ("eps",) if t[1] == a else ("empty",)
    if k == "alt":
        return _alt(deriv(t[1], a), deriv(t[2], a))
    if k == "star":
        return _cat(deriv(t[1], a), t)
    d = _cat(deriv(t[1], a), t[2])
    if nullable(t[1]):
        return _alt(d, deriv(t[2], a))
    return d


def _alt(l, r):
    if l == ("empty",):
        return r
    if r == ("empty",):
        return l
    if l == r:
        return l
    return ("alt", l, r)


def _cat(l, r):
    if l == ("empty",) or r == ("empty",):
        return ("empty",)
    if l == ("eps",):
        return r
    if r == ("eps",):
        return l
    return ("cat", l, r)


def matches(t, word):
    for a in word:
        t = deriv(t, a)
        if t == ("empty",):
            return False
    return nullable(t)


# ---------------------------------------------------------------------------
class ParseError(Exception):
    pass


SPECIAL = set(".|+*()$")


def tokenize(s):
    toks = []
    i = 0
    cur = ""
    while i < len(s):
        c = s[i]
        if c == "\\" and i + 1 < len(s):
            cur += s[i:i + 2]
            i += 2
            continue
        if c == " ":
            if cur:
                toks.append(cur)
                cur = ""
        elif c in SPECIAL:
            if cur:
                toks.append(cur)
                cur = ""
            toks.append(c)
        else:
            cur += c
        i += 1
    if cur:
        toks.append(cur)
    return toks


def parse(s):
    toks = tokenize(s)
    pos = [0]

    def peek():
        return toks[pos[0]] if pos[0] < len(toks) else None

    def alt():
        l = cat()
        while peek() in ("|", "+"):
            pos[0] += 1
            l = ("alt", l, cat())
        return l

    def cat():
        l = star()
        while True:
            p = peek()
            if p == ".":
                pos[0] += 1
                l = ("cat", l, star())
            elif p is not None and p not in ("|", "+", ")", "*"):
                l = ("cat", l, star())
            else:
                return l

    def star():
        b = atom()
        while peek() == "*":
            pos[0] += 1
            b = ("star", b)
        return b

    def atom():
        p = peek()
        if p is None or p in ("|", "+", ")", "*", "."):
            raise ParseError("unexpected %r" % (p,))
        pos[0] += 1
        if p == "(":
            if peek() == ")":
                pos[0] += 1
                return ("empty",)
            r = alt()
            if peek() != ")":
                raise ParseError("missing )")
            pos[0] += 1
            return r
        if p in ("$", "epsilon"):
            return ("eps",)
        if p[0] == "\\":
            return ("sym", p[1:])
        return ("sym", p)
    if not toks:
        return ("empty",)
    r = alt()
    if pos[0] != len(toks):
        raise ParseError("trailing %r" % (peek(),))
    return r
