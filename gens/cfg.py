"""Workload generator, builder, extractor and shrinker for context-free grammars.

Descriptor (plain JSON):
  {"vars": [names], "terms": [names], "start": name, "prods": [[head, [sym...]]...],
   "valmode": "V"|"str", "hash": {"N:<name>": int}|null, "hashmode": str,
   "ctor_sets": bool}
Variable and terminal names are disjoint (a grammar has V and Sigma disjoint); their *values* may coincide for one
variable / terminal pair ("alias").
"""
from sim.values import V, key, assign_hashes, order_signature, HASH_MODES
from models.cfg import Cfg
from sim.values import key as key  # re-export

VARS = ["S", "A", "B", "C", "D"]
TERMS = ["a", "b", "c"]
FOREIGN = "zz"
# variables named like the library's fresh symbols (C09 / C10 / C13 quantifiers)
RESERVED_VARS = ["C#CNF#1", "a#CNF#", "C#CNF#2", "#STARTUNION#", "S#SUBS#0", "A#SUBS#1", "Start"]


def gen_cfg(rng, max_vars=4, max_terms=3, max_prods=7, max_body=4, profile=None, strings_only=False,
            reserved=False, reserved_pool=None):
    profile = profile or rng.weighted([("random", 10), ("suffix", 2), ("unit_cycle", 2), ("nullable_chain", 2),
                                       ("clean", 2), ("self_unit", 1), ("empty_lang", 1)])
    nv = rng.randint(1, max_vars)
    nt = rng.randint(1, max_terms)
    vs = VARS[:nv]
    if reserved and rng.chance(0.5):
        vs = vs[:max(1, nv - 1)] + [rng.pick(reserved_pool or RESERVED_VARS)]
    ts = TERMS[:nt]
    prods = []

    def add(h, b):
        p = [h, list(b)]
        if p not in prods:
            prods.append(p)

    def rand_body(maxlen=max_body, pv=0.5):
        ln = rng.weighted([(0, 2), (1, 5), (2, 5), (3, 3), (4, 1)])
        ln = min(ln, maxlen)
        return [rng.pick(vs) if rng.chance(pv) else rng.pick(ts) for _ in range(ln)]

    if profile == "suffix":
        suf = [rng.pick(vs + ts) for _ in range(rng.randint(2, 3))]
        for _ in range(rng.randint(2, 3)):
            add(rng.pick(vs), [rng.pick(vs + ts)] + suf)
        if rng.chance(0.5):
            add(rng.pick(vs), [rng.pick(vs + ts), rng.pick(vs + ts)] + suf)
        if rng.chance(0.5):
            # further long bodies, so that fresh C#CNF#n names are handed out after a suffix-cache hit
            for _ in range(rng.randint(1, 2)):
                add(rng.pick(vs), [rng.pick(vs + ts) for _ in range(rng.randint(3, 4))])
    elif profile == "cnf_names":
        # a user variable spelled like a fresh C#CNF#n name, a long body that stops on a shared suffix, and a later
        # long body: the fresh-name bookkeeping of the binarisation is what is exercised
        k = rng.pick(["C#CNF#1", "C#CNF#2", "C#CNF#2", "C#CNF#3"])
        vs = [vs[0], k]
        add(k, [rng.pick(ts)])
        add(vs[0], [k, k])
        suf = [rng.pick(ts) for _ in range(2)]
        add(vs[0], [rng.pick(ts)] + suf)
        add(vs[0], [rng.pick(ts), rng.pick(ts)] + suf)
        for _ in range(rng.randint(1, 2)):
            add(vs[0], [rng.pick(ts) for _ in range(rng.randint(3, 4))])
    elif profile == "unit_cycle":
        k = rng.randint(1, len(vs))
        cyc = rng.sample(vs, k)
        for i in range(k):
            add(cyc[i], [cyc[(i + 1) % k]])
    elif profile == "nullable_chain":
        order = list(vs)
        rng.shuffle(order)
        add(order[-1], [])
        for i in range(len(order) - 1):
            add(order[i], [order[i + 1]] * rng.randint(1, 2))
    elif profile == "self_unit":
        add(rng.pick(vs), [])
        v = rng.pick(vs)
        add(v, [v])
    elif profile == "clean":
        # already in (or near) normal form: exercises the fast path of to_normal_form
        for v in vs:
            add(v, [rng.pick(ts)])
        for _ in range(rng.randint(0, 3)):
            add(rng.pick(vs), [rng.pick(vs), rng.pick(vs)])
        if rng.chance(0.3):
            v = rng.pick(vs)
            add(v, [v])
    n_extra = rng.randint(0, max_prods) if profile not in ("clean", "cnf_names") else rng.randint(0, 1)
    pv = rng.pick([0.3, 0.5, 0.7])
    for _ in range(n_extra):
        if len(prods) >= max_prods + 2:
            break
        if profile == "empty_lang":
            b = rand_body(pv=1.0) or [rng.pick(vs)]
            add(rng.pick(vs), b)
        else:
            add(rng.pick(vs), rand_body(pv=pv))
    start = vs[0] if rng.chance(0.85) else rng.pick(vs)
    if rng.chance(0.04):
        start = "Z"          # start symbol without productions, not among the heads
    mode = "plain" if strings_only else rng.pick(HASH_MODES)
    valmode = "str" if mode == "plain" else "V"
    if not strings_only and not reserved and rng.chance(0.1):
        # value kinds other than strings / V objects: see val()
        mode, valmode = "plain", rng.pick(["mixed", "mixed", "binint", "tup", "ivar", "pvar", "mixed2"])
    names = ["N:" + x for x in sorted(set(vs + ts + [start, FOREIGN]))]
    hashes = assign_hashes(rng, names, mode)
    # in part of the cases one variable carries the same *value* as a terminal (they stay two symbols of the grammar)
    alias = {rng.pick(vs): rng.pick(ts)} if (ts and not strings_only and not reserved and rng.chance(0.05)) else None
    return {"vars": vs, "terms": ts, "start": start, "prods": prods, "valmode": valmode, "hash": hashes,
            "hashmode": mode, "profile": profile, "ctor_sets": rng.chance(0.3), "alias": alias, "start_raw": rng.chance(0.3),
            "words_as_terminals": rng.weighted([(False, 5), (True, 3), ("mixed", 2)])}


# ---------------------------------------------------------------------------

MIXED = {"a": 1, "b": "b", "c": 2.5, "zz": "zz"}
BININT = {"a": 0, "b": 1, "c": 2, "zz": 9}        # small ints: the binary alphabet 0 / 1 (token ids)
TUPLES = {"a": (0, "x"), "b": (), "c": (1, 2, 3), "zz": ("zz",)}      # letters of a product alphabet
TERM_MAPS = {"mixed": MIXED, "binint": BININT, "tup": TUPLES, "ig": {"a": 1, "b": 2}}


def val(case, name):
    # "alias": a variable whose *value* is spelled like a terminal's (they stay different grammar symbols)
    name = (case.get("alias") or {}).get(name, name)
    if case["valmode"] == "ivar":
        # int-valued variables (what pda.to_cfg() and cfg.intersection() produce); terminals stay strings
        return VARS.index(name) if name in VARS else name
    if case["valmode"] == "pvar":
        # variables that print alike but are different values (1 and "1"); terminals stay strings
        return {"A": 1, "B": "1", "C": 2, "D": "2"}.get(name, name) if name in VARS else name
    if case["valmode"] == "termname":
        # variables spelled like the stack symbols to_pda() invents for terminals
        return {"A": "#TERM#a", "B": "#TERM#b", "C": "#TERM#c"}.get(name, name) if name in VARS else name
    if case["valmode"] == "mixed2":
        # terminals that print alike but are different values: 1 and "1", "a b" next to "a" and "b"
        return {"a": 1, "b": "1", "c": "1 1", "zz": "zz"}.get(name, name)
    if case["valmode"] == "tup":
        return TUPLES.get(name, name)
    if case["valmode"] == "binint":
        # terminals are small ints (the values the library itself gives to the variables of an intersection / to_cfg)
        return BININT.get(name, name)
    if case["valmode"] == "mixed":
        # terminal values of different, mutually incomparable types (int, str, float); variables stay strings
        return MIXED.get(name, name)
    if case["valmode"] == "V":
        h = case["hash"].get("N:" + name)
        if h is None:
            h = sum(map(ord, name)) * 7919
        return V(name, h)
    return name


def is_var_name(case, name):
    return name in case["vars"] or name == case["start"]


def sym(case, name):
    return ("V" if is_var_name(case, name) else "T", key(val(case, name)))


def ref_of(case):
    if case.get("no_start"):
        return Cfg(None, [])          # CFG(): no start symbol, the empty language (what an empty intersection returns)
    prods = [(sym(case, h), tuple(sym(case, x) for x in b)) for h, b in case["prods"]]
    return Cfg(sym(case, case["start"]), prods,
               variables=[sym(case, v) for v in case["vars"]] if case.get("ctor_sets") else (),
               terminals=[sym(case, t) for t in case["terms"]] if case.get("ctor_sets") else ())


def build(case):
    from pyformlang.cfg import CFG, Variable, Terminal, Production
    if case.get("no_start"):
        return CFG()
    ps = []
    mine = []
    for i, (h, b) in enumerate(case["prods"]):
        body = [Variable(val(case, x)) if is_var_name(case, x) else Terminal(val(case, x)) for x in b]
        # the caller's own body list (emptied below, once the grammar is built), or a tuple
        ps.append(Production(Variable(val(case, h)), tuple(body) if (case.get("start_raw") and i % 3 == 2) else body))
        mine.append(body)
    kw = {}
    if case.get("ctor_sets"):
        kw["variables"] = {Variable(val(case, v)) for v in case["vars"]}
        kw["terminals"] = {Terminal(val(case, t)) for t in case["terms"]}
        mine += list(kw.values())
    start = val(case, case["start"])
    # "start_raw": the start symbol handed over as a plain value (the constructor wraps it), not as a Variable
    cfg = CFG(start_symbol=start if case.get("start_raw") else Variable(start), productions=set(ps), **kw)
    # the caller goes on using its collections: productions and grammar must have taken copies
    for coll in mine:
        coll.clear()
    return cfg


def lib_sym(x):
    from pyformlang.cfg import Variable
    return ("V" if isinstance(x, Variable) else "T", key(x.value))


def extract(cfg):
    prods = [(lib_sym(p.head), tuple(lib_sym(x) for x in p.body)) for p in cfg.productions]
    start = lib_sym(cfg.start_symbol) if cfg.start_symbol is not None else None
    return Cfg(start, prods, variables=[lib_sym(v) for v in cfg.variables],
               terminals=[lib_sym(t) for t in cfg.terminals])


def term_keys(case, foreign=False):
    ks = [key(val(case, t)) for t in case["terms"]]
    if foreign:
        ks.append(key(val(case, FOREIGN)))
    return ks


def word_values(case, word_keys):
    back = {key(val(case, t)): val(case, t) for t in case["terms"] + [FOREIGN]}
    if case.get("words_as_terminals"):
        # the word given as Terminal objects instead of raw values (both are accepted)
        from pyformlang.cfg import Terminal
        if case["words_as_terminals"] == "mixed":
            # Terminal objects and raw values in one word; which comes first alternates with the word's length
            n = len(word_keys)
            return [Terminal(back[k]) if (i + n) % 2 else back[k] for i, k in enumerate(word_keys)]
        return [Terminal(back[k]) for k in word_keys]
    return [back[k] for k in word_keys]


def signature(cfg):
    return (order_signature(cfg.variables, lambda s: key(s.value)) + "|" +
            order_signature(cfg.terminals, lambda s: key(s.value)) + "|" +
            order_signature(cfg.productions, lambda p: str(lib_sym(p.head)) + str([lib_sym(x) for x in p.body])))


def shape_digest(case):
    from sim.core import digest
    return digest([case["vars"], case["terms"], case["start"], case["prods"], case["valmode"]])


def shrink_cfg(case):
    def mk(**kw):
        c = dict(case)
        c.update(kw)
        return c
    ps = case["prods"]
    if case.get("alias"):
        yield mk(alias=None)
    for i in range(len(ps)):
        yield mk(prods=ps[:i] + ps[i + 1:])
    for i, (h, b) in enumerate(ps):
        for j in range(len(b)):
            nb = b[:j] + b[j + 1:]
            np_ = [h, nb]
            if np_ not in ps:
                yield mk(prods=ps[:i] + [np_] + ps[i + 1:])
    used = {h for h, _ in ps} | {x for _, b in ps for x in b} | {case["start"]}
    if set(case["vars"]) - used or set(case["terms"]) - used:
        yield mk(vars=[v for v in case["vars"] if v in used], terms=[t for t in case["terms"] if t in used])
    # merge two terminals / two variables
    ts = [t for t in case["terms"] if t in used]
    if len(ts) > 1:
        for t in ts[1:]:
            np_ = []
            for h, b in ps:
                p = [h, [ts[0] if x == t else x for x in b]]
                if p not in np_:
                    np_.append(p)
            yield mk(prods=np_, terms=[x for x in case["terms"] if x != t])
    if case.get("ctor_sets"):
        yield mk(ctor_sets=False)
    if case.get("start_raw"):
        yield mk(start_raw=False)
    if case.get("no_start"):
        yield mk(no_start=False)
    if case.get("hash"):
        ident = {n: i for i, n in enumerate(sorted(case["hash"]))}
        if ident != case["hash"]:
            yield mk(hash=ident)
        yield mk(valmode="str", hash=None)
    if case["valmode"] in ("mixed", "mixed2", "pvar", "termname", "binint", "ivar", "tup"):
        yield mk(valmode="str")


def prune_useless(case):
    """descriptor restricted to useful symbols (reference fixpoints); None if the language is empty"""
    ref = ref_of(dict(case, ctor_sets=False))
    use = ref.useful_vars()
    if not use:
        return None
    gen = ref.generating_vars()
    keep = []
    for h, b in case["prods"]:
        hs = sym(case, h)
        if hs in use and all((not is_var_name(case, x)) or (sym(case, x) in gen and sym(case, x) in use) for x in b):
            keep.append([h, list(b)])
    usedn = {h for h, _ in keep} | {x for _, b in keep for x in b} | {case["start"]}
    c = dict(case, prods=keep, vars=[v for v in case["vars"] if v in usedn],
             terms=[t for t in case["terms"] if t in usedn], ctor_sets=False)
    if not c["terms"]:
        c["terms"] = []
    return c


class TreeDefect(Exception):
    pass


def tree_of(pt, _path=None, _budget=None):
    """library ParseTree -> (symbol, [children]).  A tree that contains itself, or
    that has more than 400 nodes for a word of length <= 6, is reported through
    TreeDefect instead of being unfolded."""
    if _path is None:
        _path, _budget = set(), [400]
    if id(pt) in _path:
        raise TreeDefect("the tree contains itself (cyclic)")
    _budget[0] -= 1
    if _budget[0] < 0:
        raise TreeDefect("more than 400 nodes")
    _path.add(id(pt))
    try:
        return (lib_sym(pt.value), [tree_of(s, _path, _budget) for s in pt.sons])
    finally:
        _path.discard(id(pt))


def forms_of(steps):
    return [[lib_sym(x) for x in st] for st in steps]
