"""harness side of regular expressions: library Regex -> tuple tree"""


def from_lib(rx, wrap=lambda v: "s:" + str(v)):
    from pyformlang.regular_expression import regex_objects as ro
    h = rx.head
    if isinstance(h, ro.Epsilon):
        return ("eps",)
    if isinstance(h, ro.Empty):
        return ("empty",)
    if isinstance(h, ro.Concatenation):
        assert len(rx.sons) == 2
        return ("cat", from_lib(rx.sons[0], wrap), from_lib(rx.sons[1], wrap))
    if isinstance(h, ro.Union):
        assert len(rx.sons) == 2
        return ("alt", from_lib(rx.sons[0], wrap), from_lib(rx.sons[1], wrap))
    if isinstance(h, ro.KleeneStar):
        assert len(rx.sons) == 1
        return ("star", from_lib(rx.sons[0], wrap))
    if isinstance(h, ro.Symbol):
        return ("sym", wrap(h.value))
    raise ValueError(h)


def gen_tree(rng, tokens, depth=3):
    """random regex tuple tree over the given tokens"""
    if depth == 0 or rng.chance(0.3):
        r = rng.random()
        if r < 0.12:
            return ("eps",)
        return ("sym", rng.pick(tokens))
    k = rng.weighted([("cat", 4), ("alt", 4), ("star", 2)])
    if k == "star":
        return ("star", gen_tree(rng, tokens, depth - 1))
    return (k, gen_tree(rng, tokens, depth - 1), gen_tree(rng, tokens, depth - 1))


def to_text(t, rng=None):
    """fully parenthesised text in the documented syntax (operators spelled at random when rng is given)"""
    k = t[0]
    if k == "sym":
        return t[1]
    if k == "eps":
        return "$" if (rng is None or rng.chance(0.5)) else "epsilon"
    if k == "empty":
        return ""
    if k == "star":
        return "(" + to_text(t[1], rng) + ")*"
    if k == "cat":
        op = " " if (rng is not None and rng.chance(0.5)) else "."
        return "(" + to_text(t[1], rng) + op + to_text(t[2], rng) + ")"
    op = "+" if (rng is not None and rng.chance(0.5)) else "|"
    return "(" + to_text(t[1], rng) + op + to_text(t[2], rng) + ")"


def map_syms(t, f):
    if t[0] == "sym":
        return ("sym", f(t[1]))
    if t[0] in ("eps", "empty"):
        return t
    return (t[0],) + tuple(map_syms(x, f) for x in t[1:])
