"""harness side of regular expressions: library Regex -> tuple tree"""


def from_lib(rx, wrap=lambda v: "s:" + str(v)):
    from pyformlang.regular_expression import regex_objects as ro
    h = rx.head
    if isinstance(h, ro.Epsilon):
        return ("eps",)
    if isinstance(h, ro.Empty):
        return ("empty",)
    if isinstance(h, ro.Concatenation):
        assert len(rx.sons) == 2
        return ("cat", from_lib(rx.sons[0], wrap), from_lib(rx.sons[1], wrap))
    if isinstance(h, ro.Union):
        assert len(rx.sons) == 2
        return ("alt", from_lib(rx.sons[0], wrap), from_lib(rx.sons[1], wrap))
    if isinstance(h, ro.KleeneStar):
        assert len(rx.sons) == 1
        return ("star", from_lib(rx.sons[0], wrap))
    if isinstance(h, ro.Symbol):
        return ("sym", wrap(h.value))
    raise ValueError(h)
