"""Workload generator, builder and extractor for pushdown automata.

State / stack values are ``VS`` objects: a ``str`` subclass whose hash is chosen by the
scheduler (so it stays JSON-serialisable, which the property's prescribed way of
reading the start stack symbol -- to_networkx() -- requires).
"""
import json
from sim.values import assign_hashes, order_signature, HASH_MODES
from models.pda import Pda


class VS(str):
    """str subclass with a scheduler-chosen hash.  Equal only to another VS of the same
    text (never to the plain string: equal objects must hash equally, and the library
    creates plain-string names of its own)."""
    def __new__(cls, s, h):
        o = str.__new__(cls, s)
        o.h = h
        return o

    def __hash__(self):
        return self.h

    def __eq__(self, o):
        return isinstance(o, VS) and str.__eq__(self, o)

    def __ne__(self, o):
        return not self.__eq__(o)

    def __deepcopy__(self, memo):
        return self


STATES = ["p", "q", "r"]
STACK = ["Z", "X", "Y"]
INPUTS = ["a", "b"]
RESERVED_STATES = ["#STARTTOFINAL#", "#ENDTOFINAL#", "#STARTEMPTYS#", "#ENDEMPTYS#", "#STARTTOFINAL#0",
                   "#ENDEMPTYS#0"]
RESERVED_STACK = ["#BOTTOMTOFINAL#", "#BOTTOMEMPTYS#", "#BOTTOMTOFINAL#0", "#BOTTOMEMPTYS#0"]


def gen_pda(rng, max_states=3, max_stack=3, max_trans=6, reserved=True, int_inputs=False):
    ns = rng.randint(1, max_states)
    ng = rng.randint(1, max_stack)
    states = STATES[:ns]
    stack = STACK[:ng]
    if reserved and rng.chance(0.15):
        states = states[:-1] + [rng.pick(RESERVED_STATES)] if rng.chance(0.6) else states + [rng.pick(RESERVED_STATES)]
    if reserved and rng.chance(0.15):
        stack = stack[:-1] + [rng.pick(RESERVED_STACK)] if rng.chance(0.6) else stack + [rng.pick(RESERVED_STACK)]
    inputs = INPUTS[:rng.randint(1, 2)]
    peps = rng.pick([0.15, 0.3, 0.5])
    trans = []
    for _ in range(rng.randint(1, max_trans)):
        g = [rng.pick(stack) for _ in range(rng.weighted([(0, 3), (1, 3), (2, 3), (3, 1)]))]
        t = [rng.pick(states), None if rng.chance(peps) else rng.pick(inputs), rng.pick(stack), rng.pick(states), g]
        if t not in trans:
            trans.append(t)
    finals = [s for s in states if rng.chance(0.4)]
    mode = rng.pick(HASH_MODES)
    if any(x.startswith("#") for x in states + stack):
        mode = "plain"       # a real name collision needs the same value type as the library's fresh names
    names = ["S:" + s for s in states] + ["G:" + g for g in stack]
    return {"states": states, "stack": stack, "inputs": inputs, "trans": trans, "start": states[0],
            "z0": stack[0], "finals": finals, "hash": assign_hashes(rng, sorted(names), mode), "hashmode": mode,
            "ctor_tf": rng.chance(0.15), "ctor_eps": rng.pick([None, None, None, "str", "obj"]), "bulk": rng.chance(0.15),
            "inmode": rng.pick(["int", "int", "allint"]) if int_inputs and rng.chance(0.25) else "str",
            "no_start": rng.chance(0.02)}


def sv(case, s):
    if case.get("inmode") == "allint":
        return case["states"].index(s)          # states, stack symbols and input symbols all drawn from 0, 1, 2, ...
    return VS(s, case["hash"]["S:" + s]) if case.get("hash") and ("S:" + s) in case["hash"] else s


def gv(case, g):
    if case.get("inmode") == "allint":
        return case["stack"].index(g)
    return VS(g, case["hash"]["G:" + g]) if case.get("hash") and ("G:" + g) in case["hash"] else g


def iv(case, a):
    """value of an input symbol: the name itself, or (inmode "int") a small int -- the binary alphabet 0 / 1"""
    return {"a": 0, "b": 1}[a] if case.get("inmode") in ("int", "allint") else a


def ref_of(case):
    if case.get("no_start"):
        return Pda([], [], [], None, None, [])      # PDA(): no start configuration (what an empty intersection returns)
    S = lambda x: _k(sv(case, x))
    Gm = lambda x: _k(gv(case, x))
    return Pda([S(x) for x in case["states"]], [Gm(x) for x in case["stack"]],
               [(S(q), None if a is None else _k(iv(case, a)), Gm(X), S(r), tuple(Gm(y) for y in g))
                for q, a, X, r, g in case["trans"]],
               S(case["start"]), Gm(case["z0"]), [S(x) for x in case["finals"]])


def _ctor_inputs(case):
    """the declared input alphabet; in part of the cases it also lists epsilon (by name or as an object), as the
    repository's own tests do"""
    from pyformlang.pda import Epsilon
    ins = {iv(case, a) for a in case["inputs"]}
    if case.get("ctor_eps") == "str":
        ins.add("epsilon")
    elif case.get("ctor_eps") == "obj":
        ins.add(Epsilon())
    return ins


def build(case):
    from pyformlang.pda import PDA
    if case.get("no_start"):
        return PDA()
    if case.get("ctor_tf"):
        # a ready-made transition function filled with its own State / Symbol / StackSymbol objects (equal to, but
        # not the same objects as, the members of the declared sets)
        from pyformlang.pda import State, Symbol, StackSymbol, Epsilon
        from pyformlang.pda.transition_function import TransitionFunction
        tf = TransitionFunction()
        for q, a, X, r, g in case["trans"]:
            tf.add_transition(State(sv(case, q)), Epsilon() if a is None else Symbol(iv(case, a)), StackSymbol(gv(case, X)),
                              State(sv(case, r)), [StackSymbol(gv(case, y)) for y in g])
        return PDA(states={sv(case, s) for s in case["states"]}, input_symbols=_ctor_inputs(case),
                   stack_alphabet={gv(case, g) for g in case["stack"]}, transition_function=tf,
                   start_state=sv(case, case["start"]), start_stack_symbol=gv(case, case["z0"]),
                   final_states={sv(case, s) for s in case["finals"]})
    # the caller's own sets (of ready-made State objects in part of the cases), emptied once the PDA is built
    from pyformlang.pda import State
    wrap = State if case.get("bulk") else (lambda x: x)
    fin = {wrap(sv(case, s)) for s in case["finals"]}
    sta = {wrap(sv(case, s)) for s in case["states"]}
    pda = PDA(start_state=sv(case, case["start"]), start_stack_symbol=gv(case, case["z0"]),
              final_states=fin, states=sta,
              **({"input_symbols": _ctor_inputs(case)} if case.get("ctor_eps") else {}))
    fin.clear()
    sta.clear()
    if case.get("bulk"):
        pda.add_transitions([(sv(case, q), "epsilon" if a is None else iv(case, a), gv(case, X), sv(case, r),
                              [gv(case, y) for y in g]) for q, a, X, r, g in case["trans"]])
        return pda
    for q, a, X, r, g in case["trans"]:
        pda.add_transition(sv(case, q), "epsilon" if a is None else iv(case, a), gv(case, X), sv(case, r),
                           [gv(case, y) for y in g])
    return pda


def _k(v):
    """hash-seed independent key of a PDA value (VS and str coincide; tuples of states appear in products)"""
    if isinstance(v, VS):
        return "~" + str(v)
    if isinstance(v, str):
        return str(v)
    if isinstance(v, tuple):
        return "(" + ",".join(_k(x) for x in v) + ")"
    if hasattr(v, "value"):
        return _k(v.value)
    return type(v).__name__ + ":" + str(v)


def extract(pda):
    """structure of a real PDA through the public API; the start stack symbol via to_networkx()"""
    from pyformlang.pda import Epsilon
    trans = []
    for (q, a, X), outs in pda.to_dict().items():
        for (r, gam) in outs:
            trans.append((_k(q.value), None if isinstance(a, Epsilon) else _k(a.value), _k(X.value), _k(r.value),
                          tuple(_k(x.value) for x in gam)))
    states = [_k(q.value) for q in pda.states]
    stack = [_k(x.value) for x in pda.stack_symbols]
    z0 = None
    try:
        g = pda.to_networkx()
    except TypeError:
        # symbol values that JSON cannot write (V objects, kept as they are by cfg.to_pda()): the export is outside
        # its domain, and the start stack symbol has no other public reader -- read the attribute
        import networkx
        g = networkx.MultiDiGraph()
        if getattr(pda, "_start_stack_symbol", None) is not None:
            z0 = _k(pda._start_stack_symbol.value)
    if "INITIAL_STACK_HIDDEN" in g.nodes:
        txt = _unjson(json.loads(g.nodes["INITIAL_STACK_HIDDEN"]["label"]))
        cands = sorted({_k(x.value) for x in pda.stack_symbols if _unjson(json.loads(json.dumps(x.value))) == txt})
        z0 = cands[0] if len(cands) == 1 else _k(txt)
    q0 = _k(pda.start_state.value) if pda.start_state is not None else None
    for t in trans:
        states += [t[0], t[3]]
        stack += [t[2]] + list(t[4])
    return Pda(states, stack + ([z0] if z0 is not None else []), trans, q0, z0, [_k(q.value) for q in pda.final_states])


def _unjson(x):
    if isinstance(x, list):
        return tuple(_unjson(y) for y in x)
    return x


def signature(pda):
    return (order_signature(pda.states, lambda s: _k(s.value)) + "|" +
            order_signature(pda.stack_symbols, lambda s: _k(s.value)))


def shape_digest(case):
    from sim.core import digest
    return digest([case["states"], case["stack"], case["trans"], case["start"], case["z0"], case["finals"]])


def shrink_pda(case):
    def mk(**kw):
        c = dict(case)
        c.update(kw)
        return c
    tr = case["trans"]
    for i in range(len(tr)):
        yield mk(trans=tr[:i] + tr[i + 1:])
    for i, t in enumerate(tr):
        for j in range(len(t[4])):
            nt = [t[0], t[1], t[2], t[3], t[4][:j] + t[4][j + 1:]]
            if nt not in tr:
                yield mk(trans=tr[:i] + [nt] + tr[i + 1:])
        if t[1] is not None:
            nt = [t[0], None, t[2], t[3], t[4]]
            if nt not in tr:
                yield mk(trans=tr[:i] + [nt] + tr[i + 1:])
    for f in case["finals"]:
        yield mk(finals=[x for x in case["finals"] if x != f])
    used_s = {case["start"]} | {t[0] for t in tr} | {t[3] for t in tr} | set(case["finals"])
    used_g = {case["z0"]} | {t[2] for t in tr} | {y for t in tr for y in t[4]}
    if set(case["states"]) - used_s or set(case["stack"]) - used_g:
        yield mk(states=[s for s in case["states"] if s in used_s], stack=[g for g in case["stack"] if g in used_g])
    if case.get("ctor_tf"):
        yield mk(ctor_tf=False)
    if case.get("ctor_eps"):
        yield mk(ctor_eps=None)
    if case.get("bulk"):
        yield mk(bulk=False)
    if case.get("no_start"):
        yield mk(no_start=False)
    if case.get("inmode") == "allint":
        yield mk(inmode="int")
    if case.get("inmode") == "int":
        yield mk(inmode="str")
    if case.get("hash"):
        ident = {n: i for i, n in enumerate(sorted(case["hash"]))}
        if ident != case["hash"]:
            yield mk(hash=ident)
        yield mk(hash=None)
