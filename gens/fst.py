"""Workload generator, builder and extractor for finite-state transducers."""
from sim.values import assign_hashes, order_signature, HASH_MODES
from gens.pda import VS
from models.fst import Fst

STATES = ["a", "a0", "a1", "b", "a00", "q", "kleene_star", "kleene_star0"]      # names that collide under the library's renaming scheme
INT_STATES = ["0", "1", "2", "3"]
INPUTS = ["x", "y"]
OUTPUTS = ["u", "v"]


def gen_fst(rng, max_states=4, max_trans=6, allow_int=True, pool=None):
    ns = rng.randint(1, max_states)
    if pool is not None:
        states, valmode = pool[0][:ns], pool[1]
    elif allow_int and rng.chance(0.12):
        states, valmode = INT_STATES[:ns], "int"
    elif allow_int and rng.chance(0.08):
        states, valmode = (["0", "end", "1", "mid"])[:ns], "mixed"     # int and str names in one transducer
    else:
        states, valmode = rng.sample(STATES, ns), "str"
    inputs = INPUTS[:rng.randint(1, 2)]
    peps = rng.pick([0.0, 0.2, 0.4])
    trans = []
    for _ in range(rng.randint(0, max_trans)):
        a = None if rng.chance(peps) else rng.pick(inputs)
        out = [rng.pick(OUTPUTS) for _ in range(rng.weighted([(0, 3), (1, 5), (2, 2)]))]
        trans.append([rng.pick(states), a, rng.pick(states), out])
    starts = [s for s in states if rng.chance(0.4)] or ([rng.pick(states)] if rng.chance(0.9) else [])
    finals = [s for s in states if rng.chance(0.4)] or ([rng.pick(states)] if rng.chance(0.85) else [])
    mode = rng.pick(HASH_MODES) if valmode == "str" else "plain"
    case = {"states": states, "inputs": inputs, "trans": trans, "starts": starts, "finals": finals,
            "valmode": valmode, "hash": assign_hashes(rng, sorted("S:" + s for s in states), mode), "hashmode": mode,
            "bulk": rng.chance(0.15), "out_form": rng.pick(["list", "list", "list", "tuple", "iter", "kept"])}
    make_eps_cycles_silent(case)
    return case


def intify(case):
    """input and output symbols as small ints (0 / 1 on both tapes, the values int-named states have too)"""
    m = {"x": 0, "y": 1, "u": 0, "v": 1}
    case["inputs"] = [m.get(a, a) for a in case["inputs"]]
    case["trans"] = [[p, m.get(a, a), q, [m.get(o, o) for o in out]] for p, a, q, out in case["trans"]]
    case["iomode"] = "int"
    return case


def make_eps_cycles_silent(case):
    """the property's domain: epsilon cycles write nothing -- erase the outputs of offending moves"""
    while True:
        ref = ref_of(case)
        if not ref.writing_eps_cycle():
            return
        for t in case["trans"]:
            if t[1] is None and t[3]:
                probe = dict(case, trans=[x if x is not t else [t[0], t[1], t[2], []] for x in case["trans"]])
                t[3] = []
                break


def sv(case, s):
    if case["valmode"] == "int" or (case["valmode"] == "mixed" and s.isdigit()):
        return int(s)
    if case.get("hash") and ("S:" + s) in case["hash"]:
        return VS(s, case["hash"]["S:" + s])
    return s


def k(v):
    if isinstance(v, VS):
        return "~" + str(v)
    if isinstance(v, str):
        return v
    return type(v).__name__ + ":" + str(v)


def ref_of(case):
    S = lambda s: k(sv(case, s))
    return Fst([S(s) for s in case["states"]], [(S(p), a, S(q), tuple(o)) for p, a, q, o in case["trans"]],
               [S(s) for s in case["starts"]], [S(s) for s in case["finals"]])


def build(case):
    from pyformlang.fst import FST
    f = FST()
    for s in case["starts"]:
        f.add_start_state(sv(case, s))
    for s in case["finals"]:
        f.add_final_state(sv(case, s))
    form = case.get("out_form", "list")
    kept = []

    def outs(o, reads=True):
        """the output word in the form the caller hands it over (`output_symbols : iterable of Any`): a list, a tuple, a
        one-shot iterator, or a list the caller goes on using (it gets a further element once the FST is built)"""
        if form == "tuple":
            return tuple(o)
        if form == "iter":
            return iter(list(o))
        o = list(o)
        if form == "kept" and reads:        # (not on epsilon-input moves: an edit that leaked into a cycle never ends)
            kept.append(o)
        return o
    if case.get("bulk"):
        f.add_transitions([(sv(case, p), "epsilon" if a is None else a, sv(case, q), outs(o, a is not None))
                           for p, a, q, o in case["trans"]])
    else:
        for p, a, q, o in case["trans"]:
            f.add_transition(sv(case, p), "epsilon" if a is None else a, sv(case, q), outs(o, a is not None))
    for o in kept:
        o.append("caller's later edit")
    return f


def extract(f):
    trans = []
    for (p, a), outs in f.transitions.items():
        for q, o in outs:
            trans.append((k(p), None if a == "epsilon" else a, k(q), tuple(o)))
    return Fst([k(s) for s in f.states], trans, [k(s) for s in f.start_states], [k(s) for s in f.final_states])


def signature(f):
    return order_signature(f.states, k)


def shape_digest(case):
    from sim.core import digest
    return digest([case["states"], case["trans"], case["starts"], case["finals"], case["valmode"]])


def shrink_fst(case):
    def mk(**kw):
        c = dict(case)
        c.update(kw)
        return c
    tr = case["trans"]
    if case.get("bulk"):
        yield mk(bulk=False)
    if case.get("out_form", "list") != "list":
        yield mk(out_form="list")
    for i in range(len(tr)):
        yield mk(trans=tr[:i] + tr[i + 1:])
    for i, t in enumerate(tr):
        if t[3]:
            yield mk(trans=tr[:i] + [[t[0], t[1], t[2], t[3][:-1]]] + tr[i + 1:])
    for s in case["starts"]:
        yield mk(starts=[x for x in case["starts"] if x != s])
    for s in case["finals"]:
        yield mk(finals=[x for x in case["finals"] if x != s])
    used = {t[0] for t in tr} | {t[2] for t in tr} | set(case["starts"]) | set(case["finals"])
    if set(case["states"]) - used:
        yield mk(states=[s for s in case["states"] if s in used])
    if case.get("hash"):
        yield mk(hash=None)
