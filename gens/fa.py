"""Workload generator, builder, extractor and shrinker for finite-automaton cases.

A case descriptor is plain JSON data:

  {"kind": "enfa"|"nfa"|"dfa", "valmode": "V"|"str"|"int", "symmode": "V"|"str",
   "states": [name...], "symbols": [name...], "hash": {name: int}|null,
   "trans": [[p, a|null, q]...], "starts": [...], "finals": [...],
   "ctor": bool, "extra_symbols": [...], "extra_states": [...]}

Names are strings; ``valmode`` says how a name becomes a user value (a ``V`` with
the scheduler-chosen hash, the plain string, or ``int(name)``).
"""
from sim.values import V, key, assign_hashes, order_signature, HASH_MODES
from models.fa import Nfa

PLAIN_STATES = ["q0", "q1", "q2", "q3", "q4", "q5", "q6", "q7"]
INT_STATES = ["0", "1", "2", "3", "4", "5", "6", "7"]
# names imitating the library's own merged / fresh names (C01, C03 quantifier)
ADVERSARIAL_STATES = ["a", "b", "a;b", "c", "b;c", "a;b;c", "TRASH", "Empty", "TrashNode",
                      "a; b", "b; a", "a;TRASH", "", ";", "a; b; c", "0", "0;1", "1"]
SYMBOLS = ["a", "b", "c"]
MULTI_SYMBOLS = ["ab", "b", "abc", "a"]
FOREIGN = "zz"


def gen_fa(rng, kind=None, max_states=5, max_symbols=3, max_trans=9, plain_symbols=False,
           adversarial=True, allow_int=True, name_pool=None):
    kind = kind or rng.weighted([("enfa", 5), ("nfa", 3), ("dfa", 2)])
    r = rng.random()
    if name_pool is not None:
        pool, valmode = name_pool
    elif adversarial and r < 0.22:
        pool, valmode = ADVERSARIAL_STATES, rng.pick(["V", "str"])
    elif allow_int and r < 0.36:
        pool, valmode = INT_STATES, "int"
    elif allow_int and adversarial and r < 0.42:
        pool, valmode = MIXED_STATES, "mixed"
    else:
        pool, valmode = PLAIN_STATES, rng.pick(["V", "V", "str"])
    ns = rng.weighted([(1, 1), (2, 3), (3, 5), (4, 5), (5, 3)])
    if max_states > 5:
        ns = rng.randint(4, max_states)
    ns = min(ns, max_states)
    if pool is ADVERSARIAL_STATES:
        states = rng.sample(pool, ns)
    else:
        states = pool[:ns]
    nsym = rng.randint(1, max_symbols)
    sympool = MULTI_SYMBOLS if rng.chance(0.15) else SYMBOLS
    symbols = sympool[:nsym]
    symmode = "str" if plain_symbols else rng.pick(["V", "str", "str"])
    if not plain_symbols and rng.chance(0.07):
        symmode = "mixed"
    peps = 0.0 if kind != "enfa" else rng.pick([0.0, 0.15, 0.3, 0.5])
    nt = rng.randint(0, max_trans)
    trans = []
    seen = set()
    for _ in range(nt):
        p = rng.pick(states)
        q = rng.pick(states)
        a = None if rng.chance(peps) else rng.pick(symbols)
        if kind == "dfa":
            if (p, a) in seen:
                continue
            seen.add((p, a))
        t = [p, a, q]
        if t not in trans:
            trans.append(t)
    pstart = rng.pick([0.2, 0.4, 0.6])
    starts = [s for s in states if rng.chance(pstart)]
    if not starts and rng.chance(0.9):
        starts = [rng.pick(states)]
    if kind == "dfa":
        starts = starts[:1]
    pfin = rng.pick([0.2, 0.4, 0.6])
    finals = [s for s in states if rng.chance(pfin)]
    if not finals and rng.chance(0.85):
        finals = [rng.pick(states)]
    mode = rng.pick(HASH_MODES)
    names = set()
    if valmode == "V":
        names |= {"S:" + s for s in states}
    if symmode == "V":
        names |= {"Y:" + s for s in symbols} | {"Y:" + FOREIGN}
    hashes = assign_hashes(rng, sorted(names), mode) if names else None
    if hashes is None:
        # plain mode: order is left to PYTHONHASHSEED alone -> values must be str/int
        if valmode == "V":
            valmode = "str"
        if symmode == "V":
            symmode = "str"
    if symmode == "mixed" and hashes:
        hashes = {k: v for k, v in hashes.items() if not k.startswith("Y:")} or None
    case = {"kind": kind, "valmode": valmode, "symmode": symmode, "states": states,
            "symbols": symbols, "hash": hashes, "hashmode": mode, "trans": trans, "starts": starts,
            "finals": finals, "ctor": rng.chance(0.25), "ctor_all": rng.chance(0.5), "ctor_tf": rng.chance(0.12), "words_as_symbols": rng.chance(0.3), "words_form": rng.pick(["list", "list", "list", "tuple", "iter"]), "bulk": rng.chance(0.15), "caller_sets": rng.chance(0.5),
            "extra_symbols": ([rng.pick(["x", "y"])] if rng.chance(0.12) else []),
            "extra_states": []}
    if rng.chance(0.18):
        # editing history: transitions (and marks) that are added and removed again before the automaton is used
        ghosts = []
        for _ in range(rng.randint(1, 2)):
            a = None if (kind == "enfa" and rng.chance(0.5)) else rng.pick(symbols)
            g = [rng.pick(states), a, rng.pick(states)]
            if g not in trans and g not in ghosts and not (kind == "dfa" and (g[0], g[1]) in seen):
                ghosts.append(g)
        case["ghost_trans"] = ghosts
        if rng.chance(0.4):
            case["ghost_final"] = rng.pick(states)
        if rng.chance(0.4) and kind != "dfa":
            case["ghost_start"] = rng.pick(states)
    if kind == "dfa" and trans and rng.chance(0.2):
        # an edit the DFA must refuse (DuplicateTransitionError) and that must leave it as it was
        p_, a_, q_ = rng.pick(trans)
        others = [x for x in states if x != q_]
        if a_ is not None and others:
            case["refused"] = [p_, a_, rng.pick(others)]
    return case


def fix_kind(c):
    """downgrade the class after an edit that broke determinism / epsilon-freeness"""
    if any(t[1] is None for t in c["trans"]):
        c["kind"] = "enfa"
    elif c["kind"] == "dfa":
        pa = [(p, a) for p, a, q in c["trans"]]
        if len(set(pa)) != len(pa) or len(c["starts"]) > 1:
            c["kind"] = "nfa"
    return c


# ---------------------------------------------------------------------------
# descriptor -> user values

MIXED_STATES = ["1", "1s", "2", "2s", "q", "3"]      # "1" -> int 1, "1s" -> str "1": distinct states that print alike


def sval(case, name):
    m = case["valmode"]
    if m == "mixed":
        if name.endswith("s") and name[:-1].isdigit():
            return name[:-1]
        return int(name) if name.isdigit() else name
    if m == "V":
        return V(name, case["hash"]["S:" + name])
    if m == "int":
        return int(name)
    return name


MIXED_SYMS = {"a": "a", "b": 1, "c": 2.5, "ab": "", "abc": 0, "x": "x", "y": 3, "zz": "zz", "d": 4, "e": "e"}


def yval(case, name):
    if case["symmode"].startswith("cfg:"):
        # the values the grammar workload gives its terminals in that valmode (ints, floats)
        from gens.cfg import TERM_MAPS
        return TERM_MAPS[case["symmode"][4:]].get(name, name)
    if case["symmode"] == "mixed":
        # symbols of mutually incomparable types in one alphabet (str, int, float)
        return MIXED_SYMS.get(name, name)
    if case["symmode"] == "V":
        h = case["hash"].get("Y:" + name)
        if h is None:
            h = sum(map(ord, name)) * 7919
        return V(name, h)
    return name


def skey(case, name):
    return key(sval(case, name))


def ykey(case, name):
    return key(yval(case, name))


def alphabet_keys(case, foreign=True):
    ks = [ykey(case, s) for s in case["symbols"] + case.get("extra_symbols", [])]
    if foreign:
        ks.append(ykey(case, FOREIGN))
    return ks


def ref_of(case):
    """reference automaton of the descriptor (keys, not user values)"""
    st = {skey(case, s) for s in case["states"]} | {skey(case, s) for s in case.get("extra_states", [])}
    tr = {(skey(case, p), None if a is None else ykey(case, a), skey(case, q)) for p, a, q in case["trans"]}
    for p, a, q in tr:
        st.add(p)
        st.add(q)
    starts = {skey(case, s) for s in case["starts"]}
    finals = {skey(case, s) for s in case["finals"]}
    st |= starts | finals
    alpha = {a for _, a, _ in tr if a is not None} | {ykey(case, s) for s in case.get("extra_symbols", [])}
    if (case.get("ctor") or (case.get("ctor_tf") and not _ghosts(case))) and case.get("ctor_all"):
        alpha |= {ykey(case, s) for s in case["symbols"]}
        st |= {skey(case, s) for s in case["states"]}
    for p, a, q in _ghosts(case):
        if [p, a, q] not in case["trans"]:
            st |= {skey(case, p), skey(case, q)}
            if a is not None:
                alpha.add(ykey(case, a))
    if case.get("ghost_final") is not None:
        st.add(skey(case, case["ghost_final"]))
    if _ghost_start(case) is not None:
        st.add(skey(case, case["ghost_start"]))
    return Nfa(st, alpha, tr, starts, finals)


def _ghost_start(case):
    """a start mark that is set and removed again (remove_start_state); not on a DFA, where add_start_state
    replaces the start state, and not on the ready-made-transition-function path"""
    gs = case.get("ghost_start")
    if gs is None or case["kind"] == "dfa" or gs in case["starts"] or (case.get("ctor_tf") and not _ghosts(case)):
        return None
    return gs


def _ghosts(case):
    """add-then-remove edits are replayed on the nondeterministic classes only (on a DFA an extra edge may
    clash with a real one, which is refused by DuplicateTransitionError)"""
    if case["kind"] == "dfa":
        return []
    return [g for g in (case.get("ghost_trans") or []) if not (g[1] is None and case["kind"] != "enfa")]


def build(case):
    """the real automaton, through the public API only"""
    from pyformlang.finite_automaton import (EpsilonNFA, NondeterministicFiniteAutomaton,
                                              DeterministicFiniteAutomaton, Epsilon)
    cls = {"enfa": EpsilonNFA, "nfa": NondeterministicFiniteAutomaton,
           "dfa": DeterministicFiniteAutomaton}[case["kind"]]
    starts = [sval(case, s) for s in case["starts"]]
    finals = [sval(case, s) for s in case["finals"]]
    if case.get("ctor_tf") and not _ghosts(case):
        # a ready-made transition function filled directly with its own State / Symbol objects, handed to the
        # constructor; the state and symbol sets are declared or left to the constructor to collect
        from pyformlang.finite_automaton import (State, Symbol, NondeterministicTransitionFunction,
                                                  TransitionFunction)
        tf = TransitionFunction() if case["kind"] == "dfa" else NondeterministicTransitionFunction()
        for p, a, q in case["trans"]:
            tf.add_transition(State(sval(case, p)), Epsilon() if a is None else Symbol(yval(case, a)),
                              State(sval(case, q)))
        kw = {}
        if case.get("ctor_all"):
            kw = {"states": {sval(case, s) for s in case["states"]},
                  "input_symbols": {yval(case, s) for s in case["symbols"]}}
        if case["kind"] == "dfa":
            fa = cls(transition_function=tf, start_state=(starts[0] if starts else None),
                     final_states=set(finals), **kw)
        else:
            fa = cls(transition_function=tf, start_state=set(starts), final_states=set(finals), **kw)
        for s in case.get("extra_symbols", []):
            fa.add_symbol(yval(case, s))
        return fa
    if case.get("ctor"):
        # every constructor argument: declared states (all of them) and the declared alphabet
        kw = {"states": {sval(case, s) for s in case["states"]},
              "input_symbols": {yval(case, s) for s in case["symbols"]}} if case.get("ctor_all") else {}
        if case.get("caller_sets"):
            # the caller hands over its own sets of ready-made State / Symbol objects -- one and the same set object for
            # `states` and `final_states` when they coincide -- and empties them once the automaton is built: the
            # constructor must have taken copies
            from pyformlang.finite_automaton import State, Symbol
            fin = {State(x) for x in finals}
            sta = {State(x) for x in starts}
            if kw:
                kw = {"states": {State(x) for x in kw["states"]}, "input_symbols": {Symbol(x) for x in kw["input_symbols"]}}
                if kw["states"] == fin:
                    kw["states"] = fin
            if case["kind"] == "dfa":
                fa = cls(start_state=(State(starts[0]) if starts else None), final_states=fin, **kw)
            else:
                fa = cls(start_state=sta, final_states=fin, **kw)
            for mine in [fin, sta] + list(kw.values()):
                mine.clear()
        elif case["kind"] == "dfa":
            fa = cls(start_state=(starts[0] if starts else None), final_states=set(finals), **kw)
        else:
            fa = cls(start_state=set(starts), final_states=set(finals), **kw)
    else:
        fa = cls()
        for s in starts:
            fa.add_start_state(s)
        for s in finals:
            fa.add_final_state(s)
    ghosts = [g for g in _ghosts(case) if g not in case["trans"]]
    gf = case.get("ghost_final")
    if gf is not None and gf not in case["finals"]:
        fa.add_final_state(sval(case, gf))
    gs = _ghost_start(case)
    if gs is not None:
        fa.add_start_state(sval(case, gs))
    for p, a, q in ghosts[:1]:
        fa.add_transition(sval(case, p), Epsilon() if a is None else yval(case, a), sval(case, q))
    if case.get("bulk"):
        fa.add_transitions([(sval(case, p), Epsilon() if a is None else yval(case, a), sval(case, q))
                            for p, a, q in case["trans"]])
    else:
        for p, a, q in case["trans"]:
            fa.add_transition(sval(case, p), Epsilon() if a is None else yval(case, a), sval(case, q))
    for p, a, q in ghosts[1:]:
        fa.add_transition(sval(case, p), Epsilon() if a is None else yval(case, a), sval(case, q))
    for p, a, q in ghosts:
        fa.remove_transition(sval(case, p), Epsilon() if a is None else yval(case, a), sval(case, q))
    if gf is not None and gf not in case["finals"]:
        fa.remove_final_state(sval(case, gf))
    if gs is not None:
        fa.remove_start_state(sval(case, gs))
    rf = case.get("refused")
    if rf and case["kind"] == "dfa" and [rf[0], rf[1]] in [[t[0], t[1]] for t in case["trans"]] \
            and rf not in case["trans"]:
        from pyformlang.finite_automaton import DuplicateTransitionError
        try:
            fa.add_transition(sval(case, rf[0]), yval(case, rf[1]), sval(case, rf[2]))
        except DuplicateTransitionError:
            pass
    for s in case.get("extra_symbols", []):
        fa.add_symbol(yval(case, s))
    for s in case.get("extra_states", []):
        fa.states.add(_state(sval(case, s)))
    return fa


def _state(v):
    from pyformlang.finite_automaton import State
    return State(v)


def word_values(case, word_keys):
    """map a word of symbol keys back to user values"""
    back = {ykey(case, s): yval(case, s) for s in case["symbols"] + case.get("extra_symbols", []) + [FOREIGN]}
    if case.get("words_as_symbols"):
        from pyformlang.finite_automaton import Symbol
        return [Symbol(back[k]) for k in word_keys]       # the word given as Symbol objects instead of raw values
    return [back[k] for k in word_keys]


def mix_states(case):
    """rename the states of a generated case to the MIXED_STATES pool (ints and strings in one automaton, some of them
    printing alike); no-op when there are more states than names"""
    if len(case["states"]) > len(MIXED_STATES):
        return case
    ren = dict(zip(case["states"], MIXED_STATES))
    r = lambda x: ren.get(x, x)
    case.update(states=[r(x) for x in case["states"]], trans=[[r(p), a, r(q)] for p, a, q in case["trans"]],
                starts=[r(x) for x in case["starts"]], finals=[r(x) for x in case["finals"]], valmode="mixed",
                ghost_trans=None, ghost_final=None, ghost_start=None, eps_string_edge=None, extra_states=[])
    if case.get("hash"):
        case["hash"] = {k: v for k, v in case["hash"].items() if not k.startswith("S:")} or None
    return case


def word_arg(case, word_keys):
    """the word as handed to accepts(): a list, a tuple or a one-shot iterator (`word: iterable of symbols`)"""
    w = word_values(case, word_keys)
    f = case.get("words_form")
    return tuple(w) if f == "tuple" else iter(w) if f == "iter" else w


def extract(fa):
    """structure of a real automaton, read through the public API only"""
    from pyformlang.finite_automaton import Epsilon
    st = {key(s.value) for s in fa.states}
    starts = {key(s.value) for s in fa.start_states}
    finals = {key(s.value) for s in fa.final_states}
    tr = set()
    for p, a, q in fa:
        tr.add((key(p.value), None if isinstance(a, Epsilon) else key(a.value), key(q.value)))
    for p, a, q in tr:
        st.add(p)
        st.add(q)
    alpha = {key(s.value) for s in fa.symbols} | {a for _, a, _ in tr if a is not None}
    return Nfa(st | starts | finals, alpha, tr, starts, finals)


def signature(fa):
    return (order_signature(fa.states, lambda s: key(s.value)) + "|" +
            order_signature(fa.symbols, lambda s: key(s.value)))


def shape_digest(case):
    from sim.core import digest
    return digest([case["kind"], case["states"], case["symbols"], case["trans"], case["starts"],
                   case["finals"], case["valmode"], case["symmode"]])


# ---------------------------------------------------------------------------
# minimisation candidates

def shrink_fa(case):
    def mk(**kw):
        c = dict(case)
        c.update(kw)
        return c

    for i in range(len(case["trans"])):
        yield mk(trans=case["trans"][:i] + case["trans"][i + 1:])
    for s in case["states"]:
        if len(case["states"]) > 1:
            yield mk(states=[x for x in case["states"] if x != s],
                     trans=[t for t in case["trans"] if t[0] != s and t[2] != s],
                     starts=[x for x in case["starts"] if x != s],
                     finals=[x for x in case["finals"] if x != s])
    for s in case["starts"]:
        yield mk(starts=[x for x in case["starts"] if x != s])
    for s in case["finals"]:
        yield mk(finals=[x for x in case["finals"] if x != s])
    if case.get("extra_symbols"):
        yield mk(extra_symbols=[])
    if case.get("eps_string_edge"):
        yield mk(eps_string_edge=None)
    if case.get("ghost_trans"):
        yield mk(ghost_trans=None, ghost_final=None)
        for i in range(len(case["ghost_trans"])):
            yield mk(ghost_trans=case["ghost_trans"][:i] + case["ghost_trans"][i + 1:])
    if case.get("ghost_final") is not None:
        yield mk(ghost_final=None)
    if case.get("ghost_start") is not None:
        yield mk(ghost_start=None)
    if case.get("refused"):
        yield mk(refused=None)
    if case.get("ctor_tf"):
        yield mk(ctor_tf=False)
    if case.get("bulk"):
        yield mk(bulk=False)
    if case.get("words_form", "list") != "list":
        yield mk(words_form="list")
    if case.get("ctor") and case.get("caller_sets"):
        yield mk(caller_sets=False)
    if case.get("ctor"):
        yield mk(ctor=False)
    if case.get("ctor_all"):
        yield mk(ctor_all=False)
    for i, t in enumerate(case["trans"]):
        if t[1] is None and case["kind"] == "enfa":
            continue
    # simpler symbols
    used = sorted({t[1] for t in case["trans"] if t[1] is not None})
    if len(used) > 1:
        a0 = used[0]
        for a in used[1:]:
            nt = []
            for p, x, q in case["trans"]:
                t = [p, a0 if x == a else x, q]
                if t not in nt:
                    nt.append(t)
            if case["kind"] != "dfa":
                yield mk(trans=nt, symbols=[s for s in case["symbols"] if s != a])
    # simpler values: V -> identity hashes -> plain strings
    if case.get("hash"):
        ident = {n: i for i, n in enumerate(sorted(case["hash"]))}
        if ident != case["hash"]:
            yield mk(hash=ident)
        if case["valmode"] == "V" and case["symmode"] == "V":
            yield mk(valmode="str", symmode="str", hash=None)
        if case["valmode"] == "V":
            yield mk(valmode="str", hash={k: v for k, v in case["hash"].items() if not k.startswith("S:")} or None)
        if case["symmode"] == "V":
            yield mk(symmode="str", hash={k: v for k, v in case["hash"].items() if not k.startswith("Y:")} or None)
    if case["symmode"] == "mixed":
        yield mk(symmode="str")
    # plain names
    if case["valmode"] not in ("int", "mixed") and any(s not in PLAIN_STATES for s in case["states"]):
        ren = {s: PLAIN_STATES[i] for i, s in enumerate(case["states"])} if len(case["states"]) <= len(PLAIN_STATES) else None
        if ren:
            h = case.get("hash")
            if h:
                h = {("S:" + ren.get(k[2:], k[2:]) if k.startswith("S:") else k): v for k, v in h.items()}
            yield mk(states=[ren[s] for s in case["states"]],
                     trans=[[ren[p], a, ren[q]] for p, a, q in case["trans"]],
                     starts=[ren[s] for s in case["starts"]], finals=[ren[s] for s in case["finals"]], hash=h)
    if case["valmode"] == "mixed" and len(case["states"]) <= len(PLAIN_STATES):
        ren = {s_: PLAIN_STATES[i] for i, s_ in enumerate(case["states"])}
        yield mk(valmode="str", states=[ren[s_] for s_ in case["states"]],
                 trans=[[ren[p], a, ren[q]] for p, a, q in case["trans"]],
                 starts=[ren[s_] for s_ in case["starts"]], finals=[ren[s_] for s_ in case["finals"]],
                 ghost_trans=None, ghost_final=None, ghost_start=None, eps_string_edge=None)
    if case["kind"] == "nfa":
        yield mk(kind="enfa")
    if case["kind"] == "dfa":
        yield mk(kind="nfa")
