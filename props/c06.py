"""C06 Automaton -> regular expression (state elimination) preserves the language."""
import itertools
from gens import fa as G
from gens.regex import from_lib
from models import fa as M
from models import regex as R
from sim.core import FAILED

ID = "C06"
CASES = {"quick": 1500, "thorough": 25000}
RULE = ("seeded epsilon-NFAs over plain-token symbols (1-3 characters), any start/final sets incl. empty, "
        "start=final, several start states x value-hash schedule (states) x PYTHONHASHSEED; the returned Regex "
        "is evaluated three ways (reference interpretation of its tree, its own accepts() on all words <=5, its "
        "epsilon-NFA extracted) against the source reference; non-trivial = non-empty language and >=3 states; "
        "distinct = (structure digest, order signature)")
TOKENS = [["a", "b", "c"], ["ab", "b", "abc"], ["x1", "y", "a"], ["a", "A", "aa"]]


def gen(rng, tier):
    c = G.gen_fa(rng, plain_symbols=True, adversarial=rng.chance(0.1), max_states=rng.pick([3, 4, 5]),
                 max_trans=rng.pick([5, 8, 10]))
    toks = rng.pick(TOKENS)
    if rng.chance(0.12):
        # int symbols (0 / 1 / 2): no metacharacter, no blank; the regular expression spells them "0", "1", "2"
        toks = ["a", "b", "c"]
        c["symmode"] = "cfg:binint"
    ren = dict(zip(G.SYMBOLS, toks))
    ren.update(dict(zip(G.MULTI_SYMBOLS, toks + ["c"])))
    c["symbols"] = [ren[s] for s in c["symbols"]]
    seen = []
    for p, a, q in c["trans"]:
        t = [p, None if a is None else ren[a], q]
        if t not in seen:
            seen.append(t)
    c["trans"] = seen
    c["symbols"] = sorted(set(c["symbols"]))
    c["extra_symbols"] = []
    return G.fix_kind(c)


def shrink(case):
    return G.shrink_fa(case)


def run(case, out):
    fa = G.build(case)
    if case["symmode"].startswith("cfg:"):
        # a regular expression is a text: the reference language is the automaton's with every symbol value printed
        out.probe("int_symbols")
        m = {x: str(G.yval(case, x)) for x in case["symbols"]}
        case = dict(case, symmode="str", symbols=[m[x] for x in case["symbols"]],
                    trans=[[p, None if a is None else m[a], q] for p, a, q in case["trans"]])
    ref = G.ref_of(case)
    out.sig = G.signature(fa)
    out.shape = G.shape_digest(case)
    out.fault("value_hash" if case.get("hash") else "hashseed_only")
    out.nontrivial = not ref.is_empty() and len(ref.states) >= 3
    if len(ref.starts) > 1:
        out.probe("several_start_states")
    if len(ref.finals) > 1:
        out.probe("several_final_states")
    if ref.starts & ref.finals:
        out.probe("start_is_final")
    if any(p == q and a is not None for p, a, q in ref.trans):
        out.probe("self_loop")
    if any(a is None for p, a, q in ref.trans):
        out.probe("epsilon_move")
    if not ref.starts or not ref.finals:
        out.probe("no_start_or_no_final")
    alpha = sorted(set(G.alphabet_keys(case)))
    rx = out.call("to_regex", fa.to_regex)
    if rx is FAILED:
        return
    tree = from_lib(rx)
    tn = R.to_nfa(tree)
    w = M.distinguish(M.Sub(ref), M.Sub(tn), set(alpha) | tn.alphabet)
    if w is not None:
        out.fail("to_regex:language(tree)", word=list(w), in_source=ref.accepts(w), regex=str(rx)[:200])
        return
    n = 5 if len(alpha) <= 3 else 4
    bad = False
    for ln in range(n + 1):
        for wd in itertools.product(alpha, repeat=ln):
            got = out.call("regex.accepts", rx.accepts, [x[2:] for x in wd])
            if got is FAILED or got != ref.accepts(wd):
                if got is not FAILED:
                    out.fail("to_regex:accepts", word=list(wd), regex=str(rx)[:200])
                bad = True
                break
        if bad:
            break
    en = out.call("regex.to_epsilon_nfa", rx.to_epsilon_nfa)
    if en is not FAILED:
        er = G.extract(en)
        w = M.distinguish(M.Sub(ref), M.Sub(er), set(alpha) | er.alphabet)
        if w is not None:
            out.fail("to_regex:language(round-trip enfa)", word=list(w))
