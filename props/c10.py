"""C10 CFG union / concatenation / closure / reversal / substitution build exactly that set."""
from gens import cfg as G
from models import cfg as M
from sim.core import FAILED

ID = "C10"
CASES = {"quick": 900, "thorough": 15000}
RULE = ("seeded pairs of string-valued grammars (shared variable names, same object twice, empty and epsilon-only "
        "languages, variables named like the library's fresh symbols '#STARTUNION#', 'S#SUBS#0', ...) x "
        "PYTHONHASHSEED (fresh names get their index from set order); results extracted, bounded language "
        "(<=4) by the reference and by the library's contains compared with reference set algebra; non-trivial = "
        "both bounded languages non-empty; distinct = (pair digest, order signature)")
ASSUMPTIONS = ["three quarters of the cases use plain strings (where the reserved fresh names can really collide) or "
               "int-valued variables; one quarter the full value range (V objects with scheduled hashes, mixed terminal "
               "types, a variable and a terminal sharing a value)", "bounded comparison: words of length <= 4 (<= 3 for closures)"]
RES = ["#STARTUNION#", "#STARTCONC#", "#STARTCLOS#", "#STARTPOSCLOS#", "#VARPOSCLOS#", "S#SUBS#0", "S#SUBS#1",
       "A#SUBS#1", "#STARTUNION##SUBS#0"]


def gen(rng, tier):
    a = G.gen_cfg(rng, strings_only=True, max_vars=3, max_prods=5, max_body=3)
    b = G.gen_cfg(rng, strings_only=True, max_vars=3, max_prods=5, max_body=3)
    for c in (a, b):
        if rng.chance(0.4):
            old = rng.pick(c["vars"])
            new = rng.pick(RES)
            if new not in c["vars"]:
                ren = lambda x: new if x == old else x
                c["vars"] = [ren(v) for v in c["vars"]]
                c["start"] = ren(c["start"])
                c["prods"] = [[ren(h), [ren(x) for x in bd]] for h, bd in c["prods"]]
    if rng.chance(0.12):
        a["valmode"] = b["valmode"] = "ivar"
    if a["valmode"] == "str" and rng.chance(0.25):
        # the full value range of the grammar workload (V objects with scheduled hashes, terminals of mixed types, a
        # variable and a terminal sharing a value); the second operand uses the same values for the same names
        a2 = G.gen_cfg(rng, max_vars=3, max_prods=5, max_body=3)
        if a2["terms"]:
            a = a2
            b["valmode"], b["hash"] = a["valmode"], a["hash"]
    if rng.chance(0.06):
        # an operand without start symbol: CFG(), which is also what an empty intersection returns
        (b if rng.chance(0.7) else a)["no_start"] = True
    sub_t = rng.pick(a["terms"])
    return {"a": a, "b": b, "same_object": rng.chance(0.1), "sub_terminal": sub_t}


def shrink(case):
    for side in ("a", "b"):
        for c in G.shrink_cfg(case[side]):
            if c["valmode"] != case[side]["valmode"]:
                continue
            d = dict(case)
            d[side] = c
            if d["sub_terminal"] not in d["a"]["terms"]:
                continue
            yield d
    if case["same_object"]:
        yield dict(case, same_object=False)
    if case["a"]["valmode"] == "ivar":
        yield dict(case, a=dict(case["a"], valmode="str"), b=dict(case["b"], valmode="str"))


def _cat(l1, l2, n):
    return {u + v for u in l1 for v in l2 if len(u) + len(v) <= n}


def _star(l, n, plus=False):
    res = set() if plus else {()}
    l = {w for w in l if len(w) <= n}
    cur = set(l)
    res |= cur
    while True:
        nxt = _cat(cur, l, n) - res
        if not nxt:
            break
        res |= nxt
        cur = nxt
    return res


def _cmp(out, op, res, want, tks, n, case):
    if res is FAILED:
        return
    rr = G.extract(res)
    got = rr.words_upto(n)
    if got != want:
        d = sorted(got ^ want, key=lambda w: (len(w), w))
        out.fail(op + ":language", word=list(d[0]), want=d[0] in want)
        return
    vals = {}
    for side in ("a", "b"):
        for t in case[side]["terms"] + G.TERMS + [G.FOREIGN]:
            vals.setdefault(G.key(G.val(case[side], t)), G.val(case[side], t))
    for w in M.words_over(tks, min(n, 3)):
        if not all(k in vals for k in w):
            continue
        g = out.call(op + ".contains", res.contains, [vals[k] for k in w])
        if g is FAILED:
            return
        if bool(g) != (w in want):
            out.fail(op + ":contains-of-result", word=list(w), want=w in want)
            return


def run(case, out):
    from pyformlang.cfg import Terminal
    ca, cb = case["a"], case["b"]
    if case["same_object"]:
        cb = ca
        out.fault("same_object_twice")
    ra, rb = G.ref_of(ca), G.ref_of(cb)
    n = 4
    la, lb = ra.words_upto(n), rb.words_upto(n)
    out.nontrivial = bool(la) and bool(lb)
    out.shape = G.shape_digest(ca) + G.shape_digest(cb) + str(case["same_object"])
    out.fault("hashseed_only")
    if set(ca["vars"]) & set(cb["vars"]):
        out.probe("shared_variable_names")
    if any(v in RES for v in ca["vars"] + cb["vars"]):
        out.probe("reserved_fresh_name_used")
    if ca["valmode"] == "ivar":
        out.probe("int_valued_variables")
    if not la or not lb:
        out.probe("empty_language_operand")
    if la == {()} or lb == {()}:
        out.probe("epsilon_only_operand")
    tks = sorted(set(G.term_keys(ca)) | set(G.term_keys(cb)))

    def objs():
        a = G.build(ca)
        b = a if case["same_object"] else G.build(cb)
        return a, b
    a, b = objs()
    out.sig = G.signature(a) + "||" + G.signature(b)
    _cmp(out, "union", out.call("union", a.union, b), la | lb, tks, n, case)
    a, b = objs()
    _cmp(out, "or", out.call("or", lambda: a | b), la | lb, tks, n, case)
    a, b = objs()
    _cmp(out, "concatenate", out.call("concatenate", a.concatenate, b), _cat(la, lb, n), tks, n, case)
    a, b = objs()
    _cmp(out, "add", out.call("add", lambda: a + b), _cat(la, lb, n), tks, n, case)
    a, b = objs()
    _cmp(out, "get_closure", out.call("get_closure", a.get_closure), _star(la, 3), tks, 3, case)
    a, b = objs()
    _cmp(out, "get_positive_closure", out.call("get_positive_closure", a.get_positive_closure),
         _star(la, 3, plus=True), tks, 3, case)
    a, b = objs()
    _cmp(out, "reverse", out.call("reverse", a.reverse), {w[::-1] for w in la}, tks, n, case)
    a, b = objs()
    _cmp(out, "invert", out.call("invert", lambda: ~a), {w[::-1] for w in la}, tks, n, case)
    # substitution of one terminal of a by the language of b
    t = case["sub_terminal"]
    tk = G.key(t)
    want = set()
    for w in la:
        cur = {()}
        for x in w:
            cur = _cat(cur, lb, n) if x == tk else {u + (x,) for u in cur if len(u) < n}
            if not cur:
                break
        want |= cur
    # words of a longer than n cannot contribute words <= n unless b has epsilon: use a larger window for a
    if () in lb:
        big = ra.words_upto(n + 3)
        for w in big - la:
            cur = {()}
            for x in w:
                cur = _cat(cur, lb, n) if x == tk else {u + (x,) for u in cur if len(u) < n}
                if not cur:
                    break
            want |= cur
        out.probe("substitution_with_nullable_target")
        approx = True
    else:
        approx = False
    a, b = objs()
    res = out.call("substitute", a.substitute, {Terminal(t): b})
    if res is not FAILED:
        rr = G.extract(res)
        got = rr.words_upto(n)
        if approx:
            # a-words longer than n+3 whose extra symbols all vanish are beyond the window: only check soundness
            # on the window we computed and completeness of what we know must be there
            if want - got:
                d = sorted(want - got, key=lambda w: (len(w), w))
                out.fail("substitute:language", word=list(d[0]), want=True)
        elif got != want:
            d = sorted(got ^ want, key=lambda w: (len(w), w))
            out.fail("substitute:language", word=list(d[0]), want=d[0] in want)

    # ---- simultaneous substitution of two terminals: the grammar put in place of one may use the other as an
    # ordinary letter, which must stay (both insertion orders of the dictionary)
    ta = ca["terms"]
    if len(ta) >= 2:
        t1, t2 = ta[0], ta[1]
        k1, k2 = G.key(t1), G.key(t2)
        # third operand: a tiny grammar over {t1} U its own letters, derived from b by renaming a terminal to t1
        cc = dict(cb, prods=[[h, [t1 if x == cb["terms"][0] else x for x in bd]] for h, bd in cb["prods"]],
                  terms=sorted({t1 if x == cb["terms"][0] else x for x in cb["terms"]})) if cb["terms"] else cb
        rc = G.ref_of(cc)
        lc = rc.words_upto(n)
        if () in lb or () in lc:
            return      # a nullable replacement needs an unbounded window of the source: covered above only
        want2 = set()
        for w in la:
            cur = {()}
            for x in w:
                if x == k1:
                    cur = _cat(cur, lb, n)
                elif x == k2:
                    cur = _cat(cur, lc, n)
                else:
                    cur = {u + (x,) for u in cur if len(u) < n}
                if not cur:
                    break
            want2 |= cur
        out.probe("two_key_substitution")
        if k1 in {x for w in lc for x in w}:
            out.probe("replacement_uses_another_substituted_terminal")
        for order in ((t1, t2), (t2, t1)):
            a, b = objs()
            c = G.build(cc)
            d = {}
            for t in order:
                d[Terminal(t)] = b if t == t1 else c
            res = out.call("substitute(2 keys)", a.substitute, d)
            if res is FAILED:
                continue
            got = G.extract(res).words_upto(n)
            if got != want2:
                dd = sorted(got ^ want2, key=lambda w: (len(w), w))
                out.fail("substitute(2 keys):language", word=list(dd[0]), want=dd[0] in want2, order=list(order))
