"""C18 Feature grammars: unification is the glb and membership respects unification."""
import itertools
from models import fs as MFS
from models import cfg as MC
from sim.core import FAILED
from sim.steps import LineBudget, BudgetExceeded

ID = "C18"
CASES = {"quick": 600, "thorough": 10000}
RULE = ("seeded consistently typed feature-structure pairs (depth <=2, atomic / unspecified / nested values, shared "
        "variables) unified in both argument orders against a union-find reference; seeded FCFGs (<=3 variables, "
        "<=6 productions, agreement variables shared between head and body, nested agreement structures, two "
        "features over one value domain linked by one variable, epsilon productions with feature variants, ambiguity, "
        "left recursion, a variable named like the parser's dummy start; built through from_text and FeatureProduction) x all words <=4 against the "
        "instantiate-every-variable plain-CFG oracle x PYTHONHASHSEED (the Earley agenda is filled in "
        "production-set order); non-trivial = bounded language has >=2 words and a word is rejected; distinct = "
        "(descriptor digest, production-set order signature)")
ASSUMPTIONS = ["feature structures are consistently typed (a feature is atomic everywhere or complex everywhere)",
               "bounded comparison: words of length <= 4", "FCFG.contains runs under a line-event budget; exhausting it is inconclusive"]
ATOMIC = {"N": ["sg", "pl"], "P": ["1", "3"], "M": ["sg", "pl"]}   # N and M share a domain: one variable may link them
BUDGET = 4000000


# ---------------------------------------------------------------------------- feature structures
def rand_desc(rng, depth=2):
    d = {}
    feats = ["N", "P"] + (["G"] if depth > 1 else [])
    for f in rng.sample(feats, rng.randint(0, len(feats))):
        k = rng.random()
        if f == "G":
            d[f] = rand_desc(rng, depth - 1) if k < 0.8 else ["var", rng.pick("gh")]
        elif k < 0.5:
            d[f] = rng.pick(ATOMIC[f])
        elif k < 0.7:
            d[f] = None
        else:
            d[f] = ["var", rng.pick("ab") + f]       # variables are typed by the feature they stand in
    return d


def build_fs(d, vars_=None):
    from pyformlang.fcfg.feature_structure import FeatureStructure
    vars_ = {} if vars_ is None else vars_
    fs = FeatureStructure()
    for f, v in d.items():
        if isinstance(v, dict):
            fs.add_content(f, build_fs(v, vars_))
        elif isinstance(v, (list, tuple)):
            if v[1] not in vars_:
                vars_[v[1]] = FeatureStructure()
            n = FeatureStructure()
            n.pointer = vars_[v[1]]
            fs.add_content(f, n)
        else:
            fs.add_content(f, FeatureStructure(v))
    return fs


def lib_canon(fs, maxdepth=4):
    paths = {}

    def walk(n, p):
        n = n.get_dereferenced()
        paths[p] = (id(n), n.value)
        if len(p) > maxdepth:
            return
        for f, c in n.content.items():
            walk(c, p + (f,))
    walk(fs, ())
    vals = {p: v for p, (n, v) in paths.items() if p}
    eq = frozenset(frozenset(q for q, (m, _) in paths.items() if m == n and q) for p, (n, _) in paths.items() if p)
    return vals, eq


# ---------------------------------------------------------------------------- feature grammars
VARS = ["S", "A", "B"]
TERMS = ["a", "b"]


def rand_feats(rng, vars_pool, feats, asub=()):
    """features of one grammar symbol occurrence: {feature: const | ['var', name] | {sub: const | ['var', name]}}
    (unspecified = absent).  'A' is a nested agreement structure with the sub-features `asub`; a variable standing
    for the whole structure is spelled ['var', <x|y>A]."""
    d = {}
    for f in feats:
        k = rng.random()
        if k < 0.35:
            continue
        if f == "A":
            if k < 0.6:
                d[f] = ["var", rng.pick(vars_pool) + "A"]
            else:
                sub = {}
                for sf in asub:
                    kk = rng.random()
                    if kk < 0.3:
                        continue
                    sub[sf] = rng.pick(ATOMIC[sf]) if kk < 0.75 else ["var", rng.pick(vars_pool) + sf]
                d[f] = sub
        elif k < 0.65:
            d[f] = rng.pick(ATOMIC[f])
        else:
            d[f] = ["var", rng.pick(vars_pool) + ("N" if f == "M" else f)]
    return d


def gen_fcfg(rng):
    nv = rng.randint(1, 3)
    vs = VARS[:nv]
    if nv >= 2 and rng.chance(0.12):
        vs = vs[:-1] + ["Gamma"]      # spelled like the Earley parser's own dummy start variable
    ts = TERMS[:rng.randint(1, 2)]
    feats = rng.pick([[], ["N"], ["N"], ["N", "P"], ["A"], ["A", "N"], ["A"], ["N", "M"], ["N", "M"]])
    asub = rng.pick([["N"], ["N", "P"]]) if "A" in feats else []
    prods = []
    for _ in range(rng.randint(1, 6)):
        h = rng.pick(vs)
        ln = rng.weighted([(0, 1), (1, 4), (2, 4), (3, 1)])
        body = [rng.pick(vs) if rng.chance(0.5) else rng.pick(ts) for _ in range(ln)]
        hf = rand_feats(rng, "xy", feats, asub)
        bf = [rand_feats(rng, "xy", feats, asub) if b in vs else {} for b in body]
        p = {"head": h, "hf": hf, "body": body, "bf": bf}
        if p not in prods:
            prods.append(p)
    if rng.chance(0.15) and len(ts) >= 1 and "A" not in feats:
        # the same constituent both with and without a feature value (a general and a specific chart state for one
        # production and span), combined under an agreement variable
        vs = ["S", "A", "B"]
        feats = feats or ["N"]
        f = feats[0]
        v1, v2 = rng.sample(ATOMIC[f], 2) if rng.chance(0.7) else [ATOMIC[f][0]] * 2
        t, u = ts[0], ts[-1]
        base = [{"head": "A", "hf": {}, "body": [t], "bf": [{}]},
                {"head": "A", "hf": {f: v1}, "body": [t], "bf": [{}]},
                {"head": "B", "hf": {f: v2}, "body": [u], "bf": [{}]},
                {"head": "S", "hf": {}, "body": ["A", "B"], "bf": [{f: ["var", "x" + f]}, {f: ["var", "x" + f]}]}]
        rng.shuffle(base)
        prods = base + [p for p in prods if p["head"] in vs and all(b in vs + ts for b in p["body"])][:2]
    if feats == ["N", "M"] and rng.chance(0.3):
        # the same constituent once with two features linked by one variable and once with them free: two chart states
        # for one production skeleton and span that differ only in re-entrancy
        vs = ["S", "A", "B"]
        t, u = ts[0], ts[-1]
        v1, v2 = (rng.sample(ATOMIC["N"], 2) if rng.chance(0.7) else [rng.pick(ATOMIC["N"])] * 2)
        free = rng.pick([{"N": ["var", "xN"], "M": ["var", "yN"]}, {}, {"N": ["var", "xN"]}])
        base = [{"head": "A", "hf": {"N": ["var", "xN"], "M": ["var", "xN"]}, "body": [t], "bf": [{}]},
                {"head": "A", "hf": free, "body": [t], "bf": [{}]},
                {"head": "B", "hf": {"N": v1, "M": v2}, "body": [u], "bf": [{}]},
                {"head": "S", "hf": {}, "body": ["A", "B"],
                 "bf": [{"N": ["var", "xN"], "M": ["var", "yN"]}, {"N": ["var", "xN"], "M": ["var", "yN"]}]}]
        rng.shuffle(base)
        prods = base + [p for p in prods if p["head"] in vs and all(b in vs + ts for b in p["body"])][:1]
    if rng.chance(0.1) and "A" not in feats and feats:
        # a nullable constituent with several feature variants, used twice under one agreement variable
        f = feats[0]
        vs = ["S", "A", "B"]
        v1, v2 = ATOMIC[f][0], ATOMIC[f][1]
        t = ts[0]
        base = [{"head": "A", "hf": {f: v1}, "body": [], "bf": []},
                {"head": "A", "hf": {f: v2}, "body": [], "bf": []},
                {"head": "B", "hf": {f: rng.pick([v1, v2])}, "body": [t], "bf": [{}]},
                {"head": "S", "hf": {}, "body": ["A", "A", "B"],
                 "bf": [{f: ["var", "xN" if f in "NM" else "x" + f]}] * 3}]
        if rng.chance(0.5):
            base.append({"head": "B", "hf": {f: rng.pick([v1, v2])}, "body": [ts[-1]], "bf": [{}]})
        rng.shuffle(base)
        prods = base + [p for p in prods if p["head"] in vs and all(b in vs + ts for b in p["body"])][:1]
    if rng.chance(0.5) and not any(p["head"] == "A" and not p["body"] and p["hf"] for p in prods):
        # no epsilon productions in half of the cases (the Earley loop treats them specially)
        prods = [p for p in prods if p["body"]] or [{"head": "S", "hf": {}, "body": [ts[0]], "bf": [{}]}]
    return {"vars": vs, "terms": ts, "feats": feats, "asub": asub, "prods": prods, "start": "S",
            "via_text": rng.chance(0.5), "alt_lines": rng.chance(0.4)}


def _ftext(d):
    def one(v):
        if isinstance(v, dict):
            return "[" + _ftext(v) + "]"
        return ("?" + v[1]) if isinstance(v, (list, tuple)) else v
    return ",".join("%s=%s" % (f, one(v)) for f, v in sorted(d.items()))


def fcfg_text(g):
    lines = []
    for p in g["prods"]:
        h = p["head"] + ("[" + _ftext(p["hf"]) + "]" if p["hf"] else "")
        b = []
        for x, f in zip(p["body"], p["bf"]):
            b.append(x + ("[" + _ftext(f) + "]" if f else ""))
        lines.append([h, " ".join(b) if b else "epsilon"])
    if g.get("alt_lines"):
        # the documented `|` syntax: productions with the same head (and the same head features) on one line.  All
        # alternatives of a line share the head's variables, as the reference does per production
        merged = []
        for h, b in lines:
            for m in merged:
                if m[0] == h:
                    m[1] += " | " + b
                    break
            else:
                merged.append([h, b])
        lines = merged
    return "\n".join(h + " -> " + b for h, b in lines) + "\n"


def build_fcfg(g):
    from pyformlang.fcfg import FCFG, FeatureProduction, FeatureStructure
    from pyformlang.cfg import Variable, Terminal
    if g["via_text"]:
        return FCFG.from_text(fcfg_text(g), Variable(g["start"]))
    ps = []
    for p in g["prods"]:
        sv = {}
        hf = FeatureStructure.from_text(_ftext(p["hf"]), sv)
        bfs = [FeatureStructure.from_text(_ftext(f), sv) if x in g["vars"] else FeatureStructure()
               for x, f in zip(p["body"], p["bf"])]
        body = [Variable(x) if x in g["vars"] else Terminal(x) for x in p["body"]]
        ps.append(FeatureProduction(Variable(p["head"]), body, hf, bfs))
    return FCFG(start_symbol=Variable(g["start"]), productions=set(ps))


def instantiate(g):
    """the plain CFG obtained by instantiating every feature variable (and every unspecified feature)
    with every value consistently: non-terminals are (variable, total assignment of the grammar's leaf paths).
    The nested structure 'A' contributes the leaf paths A.<sub>; a variable standing for the whole structure ranges
    over all total assignments of its sub-features."""
    feats = g["feats"]
    asub = g.get("asub") or []
    paths = []
    for f in feats:
        paths += ["A." + sf for sf in asub] if f == "A" else [f]
    doms = [ATOMIC[p[-1]] for p in paths]
    totals = [dict(zip(paths, c)) for c in itertools.product(*doms)] if paths else [{}]
    asub_totals = [dict(zip(asub, c)) for c in itertools.product(*[ATOMIC[x] for x in asub])] if asub else [{}]

    def nt(v, asg):
        return ("V", v + "/" + ",".join("%s=%s" % (p, asg[p]) for p in paths))

    def var_names(d):
        out = set()
        for v in d.values():
            if isinstance(v, dict):
                out |= var_names(v)
            elif isinstance(v, (list, tuple)):
                out.add(v[1])
        return out
    prods = []
    start = ("V", "#start")
    for asg in totals:
        prods.append((start, (nt(g["start"], asg),)))
    for p in g["prods"]:
        vnames = sorted(set().union(*[var_names(d) for d in [p["hf"]] + p["bf"]])) if ([p["hf"]] + p["bf"]) else []
        vdoms = [asub_totals if n[-1] == "A" else ATOMIC[n[-1]] for n in vnames]
        for theta_vals in itertools.product(*vdoms):
            theta = dict(zip(vnames, theta_vals))

            def ok(asg, d):
                for f in feats:
                    v = d.get(f)
                    if v is None:
                        continue
                    if f == "A":
                        if isinstance(v, dict):
                            for sf, sv in v.items():
                                want = theta[sv[1]] if isinstance(sv, (list, tuple)) else sv
                                if asg["A." + sf] != want:
                                    return False
                        else:
                            for sf in asub:
                                if asg["A." + sf] != theta[v[1]][sf]:
                                    return False
                    else:
                        want = theta[v[1]] if isinstance(v, (list, tuple)) else v
                        if asg[f] != want:
                            return False
                return True

            def options(d):
                return [asg for asg in totals if ok(asg, d)]
            slots = []
            for x, f in zip(p["body"], p["bf"]):
                if x in g["vars"]:
                    slots.append([nt(x, a) for a in options(f)])
                else:
                    slots.append([("T", x)])
            for ha in options(p["hf"]):
                for combo in itertools.product(*slots):
                    prods.append((nt(p["head"], ha), tuple(combo)))
    return MC.Cfg(start, prods)


# ---------------------------------------------------------------------------- property
def gen(rng, tier):
    if rng.chance(0.4):
        return {"kind": "unify", "d1": rand_desc(rng), "d2": rand_desc(rng)}
    return {"kind": "fcfg", "g": gen_fcfg(rng)}


def shrink(case):
    if case["kind"] == "unify":
        for side in ("d1", "d2"):
            d = case[side]
            for f in d:
                yield dict(case, **{side: {k: v for k, v in d.items() if k != f}})
                if isinstance(d[f], dict):
                    for f2 in d[f]:
                        yield dict(case, **{side: dict(d, **{f: {k: v for k, v in d[f].items() if k != f2}})})
        return
    g = case["g"]
    ps = g["prods"]
    for i in range(len(ps)):
        yield {"kind": "fcfg", "g": dict(g, prods=ps[:i] + ps[i + 1:])}
    for i, p in enumerate(ps):
        for j in range(len(p["body"])):
            q = dict(p, body=p["body"][:j] + p["body"][j + 1:], bf=p["bf"][:j] + p["bf"][j + 1:])
            yield {"kind": "fcfg", "g": dict(g, prods=ps[:i] + [q] + ps[i + 1:])}
        if p["hf"] or any(p["bf"]):
            q = dict(p, hf={}, bf=[{} for _ in p["bf"]])
            yield {"kind": "fcfg", "g": dict(g, prods=ps[:i] + [q] + ps[i + 1:])}
    if g["via_text"]:
        yield {"kind": "fcfg", "g": dict(g, via_text=False)}


def run(case, out):
    from pyformlang.fcfg.feature_structure import FeatureStructuresNotCompatibleException
    from sim.core import digest
    out.shape = digest(case)
    out.fault("hashseed_only")
    if case["kind"] == "unify":
        d1, d2 = case["d1"], case["d2"]
        want = MFS.unify(d1, d2)
        if want is None:
            out.probe("ill_typed_pair_skipped")
            return
        out.nontrivial = bool(d1) and bool(d2)
        out.probe("unify_clash" if want is False else "unify_ok")
        if any(isinstance(v, (list, tuple)) for d in (d1, d2) for v in d.values()):
            out.probe("shared_variable")
        for x, y, tag in ((d1, d2, "ab"), (d2, d1, "ba")):
            a, b = build_fs(x), build_fs(y)
            out.ops += 1
            try:
                a.unify(b)
            except FeatureStructuresNotCompatibleException:
                if want is not False:
                    out.fail("unify:refused-compatible", order=tag)
                continue
            except Exception as e:
                out.fail("unify:exception:" + type(e).__name__, order=tag, msg=str(e)[:80])
                continue
            if want is False:
                out.fail("unify:accepted-clash", order=tag)
                continue
            got = lib_canon(a)
            if got[0] != want[0]:
                out.fail("unify:values-differ", order=tag, want=str(sorted(want[0].items())), got=str(sorted(got[0].items())))
            elif got[1] != want[1]:
                out.fail("unify:sharing-differs", order=tag)
        return
    g = case["g"]
    ref = instantiate(g)
    n = 4
    lang = {tuple(w) for w in ref.words_upto(n)}
    tks = sorted(g["terms"])
    total = sum(len(tks) ** i for i in range(n + 1))
    out.nontrivial = len(lang) >= 2 and len(lang) < total
    if any(not p["body"] for p in g["prods"]):
        out.probe("epsilon_production")
    if any(p["body"] and p["body"][0] == p["head"] for p in g["prods"]):
        out.probe("left_recursion")
    if g["feats"]:
        out.probe("with_features")
    else:
        out.probe("feature_free")
    if any(isinstance(v, (list, tuple)) for p in g["prods"] for d in [p["hf"]] + p["bf"] for v in d.values()):
        out.probe("agreement_variable")
    if "A" in g["feats"]:
        out.probe("nested_agreement_structure")
        if any(isinstance(d.get("A"), (list, tuple)) for p in g["prods"] for d in [p["hf"]] + p["bf"]):
            out.probe("variable_bound_to_a_whole_structure")
    f = out.call("FCFG.build", build_fcfg, g)
    if f is FAILED:
        return
    out.sig = ".".join(str(len(p.body)) for p in f.productions)[:40]
    for w in MC.words_over(tks, n):
        b = LineBudget(BUDGET)
        try:
            with b:
                got = out.call("FCFG.contains", f.contains, list(w))
            out.lines += b.used
        except BudgetExceeded:
            out.lines += b.used
            # Earley with epsilon productions and feature copies is polynomial but steep; termination is not
            # what C18 states, so an answer that is merely slow is inconclusive, never a verdict
            out.probe("contains_budget_exhausted_inconclusive")
            break
        if got is FAILED:
            break
        if bool(got) != (w in lang):
            out.fail("FCFG.contains:verdict", word=list(w), want=w in lang, epsilon_productions=any(
                not p["body"] for p in g["prods"]))
            break
    if not g["feats"]:
        # a feature-free FCFG agrees with CFG.contains on every word
        from pyformlang.cfg import CFG, Variable, Terminal, Production
        ps = [Production(Variable(p["head"]), [Variable(x) if x in g["vars"] else Terminal(x) for x in p["body"]])
              for p in g["prods"]]
        c = CFG(start_symbol=Variable(g["start"]), productions=set(ps))
        for w in MC.words_over(tks, 3):
            a = out.call("CFG.contains", c.contains, list(w))
            if a is not FAILED and bool(a) != (w in lang):
                raise RuntimeError("harness: instantiate() oracle disagrees with CFG.contains and R-CFG")
