"""C15 Every parse tree or derivation handed out is a real derivation of the given word."""
from gens import cfg as G
from models import cfg as M
from sim.core import FAILED
from sim.steps import LineBudget, BudgetExceeded

from props import scaled as SC
ID = "C15"
CASES = {"quick": 2000, "thorough": 12000}
RULE = ("seeded grammars (ambiguous, epsilon productions and epsilon subtrees, left recursion) x member and "
        "non-member words <=4 x value-hash schedule x PYTHONHASHSEED (which tree comes back is an order "
        "decision); every tree from get_cnf_parse_tree / LL(1) / recursive descent (left and right) / "
        "FCFG.get_parse_tree is validated node by node, both derivation listings step by step; non-trivial = "
        ">=2 member words and >=1 tree validated; distinct = (grammar digest, order signature)")
ASSUMPTIONS = ["recursive descent only on grammars without epsilon productions and unit cycles (documented "
               "domain), under a line-event budget", "normal-form tree only for non-empty words"]
RD_BUDGET = 300000


def gen(rng, tier):
    sc = SC.maybe(rng, ID)
    if sc is not None:
        return sc
    from props.c14 import gen_ll1ish
    r = rng.random()
    if r < 0.3:
        c = gen_ll1ish(rng)
        c = G.prune_useless(c) or c
    else:
        c = G.gen_cfg(rng, max_prods=6, max_body=3)
    c["nwords"] = rng.randint(3, 6)
    c["wseed"] = rng.getrandbits(30)
    if rng.chance(0.1) and len(c["vars"]) >= 2 and c["terms"]:
        # a variable and a terminal that share a value (still two symbols): only the Earley parser is run on
        # these, and only when no two productions differ merely by that kind
        v = rng.pick([x for x in c["vars"] if x != c["start"]] or c["vars"])
        t = rng.pick(c["terms"])
        blind = lambda p: (p[0] if p[0] != v else t, tuple(x if x != v else t for x in p[1]))
        if v != c["start"] and len({blind(p) for p in c["prods"]}) == len(c["prods"]):
            c["alias"] = {v: t}
            c["fcfg_only"] = True
    return c


def shrink(case):
    if SC.is_scaled(case):
        return iter(())
    return _shrink(case)


def _shrink(case):
    return G.shrink_cfg(case)


def _check_tree(out, tag, tree, gref, word, root):
    try:
        t = G.tree_of(tree)
    except G.TreeDefect as e:
        out.fail(tag + ":invalid-tree", word=list(word), why=str(e))
        return False
    why = M.validate_tree(t, gref, word, root=root)
    if why:
        out.fail(tag + ":invalid-tree", word=list(word), why=why[:200])
        return False
    out.probe("tree_validated")
    if _has_eps_subtree(t):
        out.probe("epsilon_subtree_in_tree")
    for name, left in (("get_leftmost_derivation", True), ("get_rightmost_derivation", False)):
        steps = out.call(tag + "." + name, getattr(tree, name))
        if steps is FAILED:
            continue
        why = M.validate_derivation(G.forms_of(steps), gref, word, root, leftmost=left)
        if why:
            out.fail(tag + ":" + name + ":invalid", word=list(word), why=why[:200],
                     eps_subtree=_has_eps_subtree(t))
    return True


def _has_eps_subtree(t):
    sym, kids = t
    if not kids:
        return M.isvar(sym)
    return any(_has_eps_subtree(k) for k in kids)


def _recursive_at(ref, idx):
    """left (idx=0) / right (idx=-1) recursion: A =>+ A... through first / last body symbols.
    The expansion strategy of the recursive-descent parser does not terminate on those
    (the repository's own test expects RecursionError there), so they are outside its domain."""
    edge = {}
    for h, b in ref.prods:
        if b and M.isvar(b[idx]):
            edge.setdefault(h, set()).add(b[idx])
    for s in edge:
        seen = set()
        st = [s]
        while st:
            v = st.pop()
            for w in edge.get(v, ()):
                if w == s:
                    return True
                if w not in seen:
                    seen.add(w)
                    st.append(w)
    return False


def _unit_cycle(ref):
    units = {}
    for h, b in ref.prods:
        if len(b) == 1 and M.isvar(b[0]):
            units.setdefault(h, set()).add(b[0])
    for s in units:
        seen = set()
        st = [s]
        while st:
            v = st.pop()
            for w in units.get(v, ()):
                if w == s:
                    return True
                if w not in seen:
                    seen.add(w)
                    st.append(w)
    return False


def run(case, out):
    if SC.is_scaled(case):
        return SC.run(case, out)
    import random as _r
    from pyformlang.cfg.cyk_table import DerivationDoesNotExist
    from pyformlang.cfg.cfg import NotParsableException
    from pyformlang.cfg.llone_parser import LLOneParser
    from pyformlang.cfg.recursive_decent_parser import RecursiveDecentParser
    from pyformlang.cfg import Variable, Terminal
    from pyformlang.fcfg import FCFG, FeatureProduction, FeatureStructure
    ref = G.ref_of(case)
    out.shape = G.shape_digest(case) + str(case["wseed"])
    out.fault("value_hash" if case.get("hash") else "hashseed_only")
    tks = G.term_keys(case)
    n = 4
    lang = ref.words_upto(n)
    allw = list(M.words_over(tks, n if len(tks) <= 2 else 3))
    wr = _r.Random(case["wseed"])
    members = sorted(lang, key=lambda w: (len(w), w))
    nonmembers = [w for w in allw if w not in lang]
    words = wr.sample(members, min(len(members), case["nwords"])) + \
        wr.sample(nonmembers, min(len(nonmembers), 2))
    validated = 0
    cfg = G.build(case)
    out.sig = G.signature(cfg)
    if case.get("fcfg_only"):
        out.probe("variable_and_terminal_share_a_value")
        return _fcfg_part(case, out, ref, lang, words, members, validated)
    # ---- normal-form tree ----------------------------------------------------
    nf = out.call("to_normal_form", G.build(case).to_normal_form)
    nref = G.extract(nf) if nf is not FAILED else None
    for w in words:
        if not w or nref is None:
            continue
        c = G.build(case)
        out.ops += 1
        try:
            t = c.get_cnf_parse_tree(G.word_values(case, w))
        except DerivationDoesNotExist:
            if w in lang:
                out.fail("get_cnf_parse_tree:member-refused", word=list(w))
            continue
        except Exception as e:
            out.fail("get_cnf_parse_tree:exception:" + type(e).__name__, word=list(w), msg=str(e)[:100])
            continue
        if w not in lang:
            out.fail("get_cnf_parse_tree:tree-for-non-member", word=list(w))
            continue
        # the tree belongs to the normal form of *this* object
        nref2 = G.extract(c.to_normal_form())
        if _check_tree(out, "get_cnf_parse_tree", t, nref2, w, nref2.start):
            validated += 1
    # ---- LL(1) ------------------------------------------------------------------
    pruned = G.prune_useless(case)
    if pruned is not None and pruned["prods"] == case["prods"] and M.is_ll1(ref, ("$",)):
        out.probe("ll1_grammar")
        for w in words:
            p = LLOneParser(G.build(case))
            out.ops += 1
            try:
                t = p.get_llone_parse_tree(G.word_values(case, w))
            except NotParsableException:
                continue         # verdicts are C14's business
            except Exception:
                continue
            if w in lang and _check_tree(out, "get_llone_parse_tree", t, ref, w, ref.start):
                validated += 1
    # ---- recursive descent -------------------------------------------------------
    if not any(not b for _, b in ref.prods) and not _unit_cycle(ref):
        out.probe("recursive_descent_domain")
        sides = [s for s, i in ((True, 0), (False, -1)) if not _recursive_at(ref, i)]
        for w in words:
            for left in sides:
                p = RecursiveDecentParser(G.build(case))
                b = LineBudget(RD_BUDGET)
                try:
                    with b:
                        try:
                            t = p.get_parse_tree(G.word_values(case, w), left)
                        except NotParsableException:
                            t = None
                        except RecursionError:
                            t = "rec"
                        except Exception as e:
                            out.fail("recursive_descent:exception:" + type(e).__name__, word=list(w))
                            t = "exc"
                    out.lines += b.used
                except BudgetExceeded:
                    out.lines += b.used
                    # termination of the backtracking search is not what C15 states: a search that is
                    # merely slow (useless symbols blow it up) is inconclusive, never a verdict
                    out.probe("recursive_descent_budget_exhausted_inconclusive")
                    continue
                out.ops += 1
                if t == "rec":
                    out.fail("recursive_descent:RecursionError", word=list(w), left=left)
                    continue
                if t == "exc":
                    continue
                if t is None:
                    if w in lang:
                        out.fail("recursive_descent:member-refused", word=list(w), left=left)
                    continue
                if w not in lang:
                    out.fail("recursive_descent:tree-for-non-member", word=list(w), left=left)
                    continue
                if _check_tree(out, "recursive_descent", t, ref, w, ref.start):
                    validated += 1
    _fcfg_part(case, out, ref, lang, words, members, validated)


def _fcfg_part(case, out, ref, lang, words, members, validated):
    from pyformlang.cfg.cfg import NotParsableException
    from pyformlang.cfg import Variable, Terminal
    from pyformlang.fcfg import FCFG, FeatureProduction, FeatureStructure

    # ---- FCFG (feature-free grammar built through FeatureProduction) ----------------
    def fcfg():
        ps = []
        for h, b in case["prods"]:
            body = [Variable(G.val(case, x)) if G.is_var_name(case, x) else Terminal(G.val(case, x)) for x in b]
            ps.append(FeatureProduction(Variable(G.val(case, h)), body, FeatureStructure(),
                                        [FeatureStructure() for _ in body]))
        return FCFG(start_symbol=Variable(G.val(case, case["start"])), productions=set(ps))
    for w in words:
        f = out.call("FCFG", fcfg)
        if f is FAILED:
            break
        out.ops += 1
        try:
            t = f.get_parse_tree(G.word_values(case, w))
        except NotParsableException:
            continue             # which words are refused is C18's business
        except Exception as e:
            # parsers refuse with their documented exception, never another failure
            out.fail("FCFG.get_parse_tree:exception:" + type(e).__name__, word=list(w), msg=str(e)[:100])
            continue
        # every tree handed out must be a real derivation of w -- also when w is not a member (then it cannot be)
        if _check_tree(out, "FCFG.get_parse_tree", t, ref, w, ref.start):
            validated += 1
    out.nontrivial = len(members) >= 2 and validated >= 1
