"""C13 CFG <-> PDA and PDA acceptance-mode conversions preserve the language."""
from gens import pda as GP
from gens import cfg as GC
from sim.core import FAILED

ID = "C13"
CASES = {"quick": 3000, "thorough": 9000}
RULE = ("seeded PDAs (<=3 states, <=3 stack symbols, <=6 transitions, pushes of 0-3 symbols, epsilon moves and "
        "stack-growing epsilon cycles, no final states, reserved fresh names as state/stack values) and seeded "
        "grammars (a sub-workload lets a variable and a terminal share a value) x value-hash schedule x PYTHONHASHSEED; "
        "results of conversions are converted again; each conversion's result is extracted (start stack "
        "symbol via to_networkx) and its bounded language (<=4) by the reference PDA saturation / grammar "
        "fixpoint compared with the source's; non-trivial = source language (<=4) has >=2 words; distinct = "
        "(descriptor digest, order signature)")
ASSUMPTIONS = ["bounded comparison: words of length <= 4 (exact for those, stack-growing epsilon cycles included)"]
N = 4


def gen(rng, tier):
    if rng.chance(0.35):
        g = GC.gen_cfg(rng, max_vars=3, max_prods=6, max_body=3)
        if rng.chance(0.25) and len(g["vars"]) >= 2 and g["terms"]:
            # a variable and a terminal with the same value (they remain two different symbols of the grammar);
            # only grammars in which no two productions differ merely by that kind are used, since a set of
            # productions cannot hold both
            v = rng.pick([x for x in g["vars"] if x != g["start"]] or g["vars"])
            t = rng.pick(g["terms"])
            blind = lambda p: (p[0] if p[0] != v else t, tuple(x if x != v else t for x in p[1]))
            if len({blind(p) for p in g["prods"]}) == len(g["prods"]) and v != g["start"]:
                g["alias"] = {v: t}
        elif g["valmode"] == "str" and not g.get("alias") and rng.chance(0.2):
            # variables that print alike (1 / "1"), or that are spelled like the stack symbols to_pda() invents
            g["valmode"] = rng.pick(["pvar", "termname", "tup", "binint"])
        if rng.chance(0.03):
            g["no_start"] = True          # CFG(): no start symbol, the empty language
        return {"kind": "cfg", "g": g}
    return {"kind": "pda", "p": GP.gen_pda(rng, int_inputs=True)}


def shrink(case):
    if case["kind"] == "cfg":
        for c in GC.shrink_cfg(case["g"]):
            yield {"kind": "cfg", "g": c}
        if case["g"].get("alias"):
            yield {"kind": "cfg", "g": dict(case["g"], alias=None)}
    else:
        for c in GP.shrink_pda(case["p"]):
            yield {"kind": "pda", "p": c}


def _diff(out, clause, got, want, **kw):
    if got != want:
        d = sorted(got ^ want, key=lambda w: (len(w), w))
        out.fail(clause, word=list(d[0]), in_source=d[0] in want, **kw)


def run(case, out):
    if case["kind"] == "cfg":
        g = case["g"]
        ref = GC.ref_of(g)
        out.shape = GC.shape_digest(g)
        out.fault("value_hash" if g.get("hash") else "hashseed_only")
        # exact comparison: the PDA must read the grammar's own terminal values (not their printed form)
        canon = {GC.key(GC.val(g, t)): GP._k(GC.val(g, t)) for t in g["terms"]}
        want = {tuple(canon[k] for k in w) for w in ref.words_upto(N)}
        out.nontrivial = len(want) >= 2
        cfg = GC.build(g)
        out.sig = GC.signature(cfg)
        pda = out.call("cfg.to_pda", cfg.to_pda)
        if pda is FAILED:
            return
        rp = out.call("extract", GP.extract, pda)
        if rp is FAILED:
            return
        _diff(out, "cfg.to_pda:language(empty stack)", rp.lang_empty_stack(N), want)
        # and back: the grammar of that PDA
        back = out.call("cfg.to_pda.to_cfg", pda.to_cfg)
        if back is not FAILED:
            rb = GC.extract(back)
            got = {tuple(canon.get(k, k) for k in w) for w in rb.words_upto(N)}
            _diff(out, "cfg.to_pda.to_cfg:language", got, want)
        out.probe("cfg_source")
        if g.get("alias"):
            out.probe("variable_and_terminal_share_a_value")
        return
    p = case["p"]
    ref = GP.ref_of(p)
    if p.get("inmode") in ("int", "allint"):
        out.probe("int_input_symbols")
    if p.get("inmode") == "allint":
        out.probe("states_stack_and_inputs_share_int_values")
    out.shape = GP.shape_digest(p)
    out.fault("value_hash" if p.get("hash") else "hashseed_only")
    le = ref.lang_empty_stack(N)
    lf = ref.lang_final_state(N)
    out.nontrivial = len(le) >= 2 or len(lf) >= 2
    if not p["finals"]:
        out.probe("no_final_states")
    if any(len(t[4]) >= 2 and t[1] is None for t in p["trans"]):
        out.probe("stack_growing_epsilon_move")
    if any(len(t[4]) == 3 for t in p["trans"]):
        out.probe("push_three")
    if any(s.startswith("#") for s in p["states"] + p["stack"]):
        out.probe("reserved_fresh_name_used")
    if not any(t[2] == p["z0"] for t in p["trans"]):
        out.probe("start_stack_symbol_never_consumed")
    pda = GP.build(p)
    out.sig = GP.signature(pda)
    # sanity of the harness' own extraction: the extracted source must be the descriptor
    rs = GP.extract(pda)
    if (rs.lang_empty_stack(N), rs.lang_final_state(N)) != (le, lf):
        raise RuntimeError("harness: extraction of the unconverted PDA disagrees with its descriptor")
    g = out.call("to_cfg", GP.build(p).to_cfg)
    if g is not FAILED:
        rg = GC.extract(g)
        got = {tuple(_pk(k) for k in w) for w in rg.words_upto(N)}
        _diff(out, "to_cfg:language", got, le)
        # the library's own membership on the produced grammar
        gl = out.call("to_cfg.contains", lambda: {tuple(GP._k(x) for x in w)
                                                  for w in _words([GP.iv(p, a) for a in p["inputs"]], 3)
                                                  if g.contains(list(w))})
        if gl is not FAILED:
            _diff(out, "to_cfg:contains-of-result", gl, {w for w in le if len(w) <= 3})
    f = out.call("to_final_state", GP.build(p).to_final_state)
    if f is not FAILED:
        xf = _extract(out, "to_final_state", f)
        if xf is not FAILED:
            _diff(out, "to_final_state:language", xf.lang_final_state(N), le)
        else:
            f = FAILED
    e = out.call("to_empty_stack", GP.build(p).to_empty_stack)
    if e is not FAILED:
        xe = _extract(out, "to_empty_stack", e)
        if xe is not FAILED:
            _diff(out, "to_empty_stack:language", xe.lang_empty_stack(N), lf)
        else:
            e = FAILED
    # conversions of conversions: the intermediate result (built by the library, not through add_transition) is the
    # "original" of the second conversion, its reference being its own extraction
    for first, y in (("to_final_state", f), ("to_empty_stack", e)):
        if y is FAILED:
            continue
        ry = _extract(out, first, y)
        if ry is FAILED:
            continue
        if len(ry.states) > 6 or len(ry.trans) > 40:
            continue
        f2 = out.call(first + ".to_final_state", y.to_final_state)
        if f2 is not FAILED:
            x2 = _extract(out, first + ".to_final_state", f2)
            if x2 is not FAILED:
                _diff(out, first + ".to_final_state:language", x2.lang_final_state(N), ry.lang_empty_stack(N))
        e2 = out.call(first + ".to_empty_stack", y.to_empty_stack)
        if e2 is not FAILED:
            x2 = _extract(out, first + ".to_empty_stack", e2)
            if x2 is not FAILED:
                _diff(out, first + ".to_empty_stack:language", x2.lang_empty_stack(N), ry.lang_final_state(N))
        g2 = out.call(first + ".to_cfg", y.to_cfg)
        if g2 is not FAILED and len(ry.states) <= 4:
            rg2 = GC.extract(g2)
            got2 = {tuple(_pk(k) for k in w) for w in rg2.words_upto(N)}
            _diff(out, first + ".to_cfg:language", got2, ry.lang_empty_stack(N))


def _extract(out, op, obj):
    """structure of a PDA the library returned; a result that cannot even be read (a transition into `None`, say) is a
    malformed result of `op`, not a harness error"""
    try:
        return GP.extract(obj)
    except Exception as ex:
        out.fail(op + ":malformed-result", error=type(ex).__name__ + ": " + str(ex)[:120])
        return FAILED


def _pk(k):
    """a grammar-side value key ("s:a", "i:0") in the spelling of the PDA-side keys ("a", "int:0"): exact, type kept"""
    if k.startswith("s:"):
        return k[2:]
    if k.startswith("i:"):
        return "int:" + k[2:]
    return k


def _words(alpha, n):
    import itertools
    for ln in range(n + 1):
        for w in itertools.product(sorted(alpha), repeat=ln):
            yield w
