"""Scaled shapes: bounded liveness on inputs of moderate size.

A handful of fixed, parameterised inputs on which the pinned tree answers within a few thousand interpreter line
events, while an implementation that enumerates parse trees / runs / choices instead of merging them needs 2^n or 3^n.
Each is run under a deterministic budget of about 300 times the pinned cost (sim/steps.LineBudget: a pure function of
code and input); exceeding it is reported as `<op>:step-budget-exceeded`, a wrong answer as `<op>:verdict`.
The answers are known in closed form, so no reference model is involved.
"""
from sim.core import FAILED
from sim.steps import LineBudget, BudgetExceeded

CHANCE = 0.004


def maybe(rng, pid):
    """the scaled case of property `pid` in a small share of the draws, else None"""
    if not rng.chance(CHANCE):
        return None
    n = {"C17": rng.randint(15, 17), "C09": rng.randint(20, 23), "C12": rng.randint(15, 17),
         "C15": rng.randint(13, 15), "C08": rng.randint(13, 15), "C01": rng.randint(16, 20),
         "C02": rng.randint(16, 20)}[pid]
    return {"scaled": pid, "n": n, "optim": rng.pick([0, 3, 7]), "sym": rng.pick(["a", 0])}


def is_scaled(case):
    return isinstance(case, dict) and "scaled" in case


def _bounded(out, op, budget, fn):
    b = LineBudget(budget)
    try:
        with b:
            res = out.call(op, fn)
        out.lines += b.used
        return res
    except BudgetExceeded:
        out.lines += b.used
        out.fail(op + ":step-budget-exceeded", budget=budget)
        return FAILED


def run(case, out):
    pid, n = case["scaled"], case["n"]
    out.shape = "scaled:%s:%d:%s:%s" % (pid, n, case["optim"], case["sym"])
    out.sig = "-"
    out.nontrivial = True
    out.fault("hashseed_only")
    out.probe("scaled_shape")
    if pid == "C17":
        # S -> D_n[f]; D_k -> D_(k-1) C_k; every C_i pops f in two ways: the marked sets take four values only
        from pyformlang.indexed_grammar import (Rules, ConsumptionRule, EndRule, ProductionRule, DuplicationRule,
                                                IndexedGrammar)
        rs = [ProductionRule("S", "D%d" % n, "f"), DuplicationRule("D2", "C1", "C2"), EndRule("B", "b"),
              EndRule("B2", "a")]
        rs += [DuplicationRule("D%d" % k, "D%d" % (k - 1), "C%d" % k) for k in range(3, n + 1)]
        for i in range(1, n + 1):
            rs += [ConsumptionRule("f", "C%d" % i, "B"), ConsumptionRule("f", "C%d" % i, "B2")]
        got = _bounded(out, "is_empty(wide pop step)", 8000000,
                       lambda: IndexedGrammar(Rules(rs, case["optim"]), "S").is_empty())
        if got is not FAILED and got is not False:
            out.fail("is_empty(wide pop step):verdict", want=False, got=got)
        return
    if pid in ("C01", "C02"):
        # a chain of n diamonds: one word of length 2n, spelled by 2^n runs; 2n + 1 subsets are reachable
        from pyformlang.finite_automaton import NondeterministicFiniteAutomaton, EpsilonNFA
        a, b_ = case["sym"], "b"
        e = (EpsilonNFA if case["optim"] == 7 else NondeterministicFiniteAutomaton)()
        e.add_start_state("L0")
        e.add_final_state("L%d" % n)
        for i in range(n):
            for m in "UW":
                e.add_transition("L%d" % i, a, "%s%d" % (m, i))
                e.add_transition("%s%d" % (m, i), b_, "L%d" % (i + 1))
        word = [a, b_] * n
        if pid == "C01":
            got = _bounded(out, "accepts(2^n runs)", 800000, lambda: (e.accepts(word), e.accepts(word[:-1])))
            if got is not FAILED and got != (True, False):
                out.fail("accepts(2^n runs):verdict", got=str(got))
            d = _bounded(out, "to_deterministic(2^n runs)", 2500000, e.to_deterministic)
            if d is not FAILED and (not d.is_deterministic() or not d.accepts(word) or d.accepts(word[:-2])):
                out.fail("to_deterministic(2^n runs):language")
        m_ = _bounded(out, "minimize(2^n runs)", 10000000, e.minimize)
        if m_ is not FAILED and (len(m_.states) != 2 * n + 1 or not m_.accepts(word) or m_.accepts(word[2:])):
            out.fail("minimize(2^n runs):result", states=len(m_.states))
        if pid == "C02":
            got = _bounded(out, "is_equivalent_to(2^n runs)", 25000000, lambda: e.is_equivalent_to(e.copy()))
            if got is not FAILED and got is not True:
                out.fail("is_equivalent_to(2^n runs):verdict", got=got)
        return
    from pyformlang.cfg import CFG, Variable as V, Terminal as T, Production as P
    a = case["sym"]
    if pid == "C09":
        # one body of n terminals, nothing nullable in it: n + 2 productions before, the same words after
        ps = [P(V("S"), [T("t%d" % i) for i in range(n)]), P(V("S"), [V("A"), T("b")]), P(V("A"), [])]
        g = CFG(start_symbol=V("S"), productions=ps)
        got = _bounded(out, "remove_epsilon(long body)", 600000, lambda: g.remove_epsilon())
        if got is not FAILED:
            bodies = sorted(tuple(x.value for x in p.body) for p in got.productions)
            want = sorted([tuple("t%d" % i for i in range(n)), ("A", "b"), ("b",)])
            if bodies != want and bodies != sorted(want[:1] + [("b",)]):
                out.fail("remove_epsilon(long body):productions", got=str(bodies)[:200])
        g2 = CFG(start_symbol=V("S"), productions=ps)
        got = _bounded(out, "to_normal_form(long body)", 6000000, lambda: g2.to_normal_form())
        if got is not FAILED:
            if not got.is_normal_form() or not got.contains([T("t%d" % i) for i in range(n)]) \
                    or not got.contains([T("b")]) or got.contains([T("t0")]):
                out.fail("to_normal_form(long body):language")
        return
    g = CFG(start_symbol=V("S"), productions=[P(V("S"), [V("S"), V("S")]), P(V("S"), [T(a)])])
    if pid == "C12":
        # S -> S S | a: n words, Catalan-many parse trees
        got = _bounded(out, "get_words(ambiguous)", 1500000,
                       lambda: [tuple(x.value for x in w) for w in g.get_words(n)])
        if got is not FAILED and sorted(got) != sorted((a,) * k for k in range(1, n + 1)):
            out.fail("get_words(ambiguous):words", n=n, got=len(got))
        return
    if pid == "C08":
        word = [T(a)] * n
        got = _bounded(out, "contains(ambiguous)", 8000000, lambda: (g.contains(word), word in g, g.contains([])))
        if got is not FAILED and got != (True, True, False):
            out.fail("contains(ambiguous):verdict", got=str(got))
        return
    if pid == "C15":
        word = [T(a)] * n
        tree = _bounded(out, "get_cnf_parse_tree(ambiguous)", 8000000, lambda: g.get_cnf_parse_tree(word))
        if tree is not FAILED:
            from gens.cfg import tree_of, extract
            from models.cfg import validate_tree
            from sim.values import key
            why = validate_tree(tree_of(tree), extract(g.to_normal_form()), [key(a)] * n)
            if why:
                out.fail("get_cnf_parse_tree(ambiguous):invalid-tree", why=why)
        got = _bounded(out, "contains(ambiguous)", 8000000, lambda: g.contains(word))
        if got is not FAILED and got is not True:
            out.fail("contains(ambiguous):verdict", want=True, got=got)
        return
    raise RuntimeError("unknown scaled shape " + pid)
