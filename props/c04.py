"""C04 Automaton emptiness, determinism, acyclicity and word enumeration are exact."""
from gens import fa as G
from models import fa as M
from sim.core import FAILED
from sim.steps import LineBudget, BudgetExceeded
from sim.values import key

ID = "C04"
CASES = {"quick": 8000, "thorough": 40000}
RULE = ("seeded epsilon-NFAs (epsilon cycles, dead states, several start states) x bounds n in 0..5 and n=None on "
        "finite languages x value-hash schedule x PYTHONHASHSEED; enumeration consumed whole, stepwise with "
        "interleaved queries, and abandoned; non-trivial = non-empty language and >=3 states; distinct = "
        "(structure digest, order signature)")
ASSUMPTIONS = ["bounded liveness: get_accepted_words() without a bound on a finite language must finish within "
               "LINE_BUDGET interpreter line events (deterministic), never a wall-clock verdict"]
LINE_BUDGET = 400000


def gen(rng, tier):
    big = tier == "thorough" and rng.chance(0.25)
    c = G.gen_fa(rng, adversarial=rng.chance(0.05), max_states=8 if big else rng.pick([4, 5, 6]),
                 max_trans=15 if big else rng.pick([6, 9, 11]))
    if rng.chance(0.012):
        # one word spelled by 2^k runs (a chain of k "diamonds"): enumeration must merge the runs that reach the same
        # state with the same word, or the bounded-liveness clause below fails
        k = rng.randint(10, 13)
        tr = []
        for i in range(k):
            tr += [["L%d" % i, "a", "U%d" % i], ["L%d" % i, "a", "W%d" % i],
                   ["U%d" % i, "b", "L%d" % (i + 1)], ["W%d" % i, "b", "L%d" % (i + 1)]]
        rng.shuffle(tr)
        c.update(kind=rng.pick(["nfa", "enfa"]), valmode="str", symmode="str", hash=None, hashmode="plain",
                 states=sorted({x for t in tr for x in (t[0], t[2])}), symbols=["a", "b"], trans=tr,
                 starts=["L0"], finals=["L%d" % k], ctor=False, ctor_tf=False, ctor_all=False, extra_symbols=[],
                 extra_states=[], ghost_trans=None, ghost_final=None, ghost_start=None, eps_string_edge=None,
                 profile="diamonds")
    c["bounds"] = sorted(rng.sample(range(0, 6), 2))
    c["step_k"] = rng.randint(0, 4)
    return c


def shrink(case):
    for c in G.shrink_fa(case):
        yield c
    if len(case["bounds"]) > 1:
        for b in case["bounds"]:
            yield dict(case, bounds=[b])


def _words(out, op, it, case):
    """consume an enumeration; returns list of tuples of symbol keys or FAILED"""
    def consume():
        return [tuple(key(s.value) for s in w) for w in it]
    return out.call(op, consume)


def run(case, out):
    ref = G.ref_of(case)
    fa = G.build(case)
    out.sig = G.signature(fa)
    out.shape = G.shape_digest(case) + str(case["bounds"])
    out.fault("value_hash" if case.get("hash") else "hashseed_only")
    empty = ref.is_empty()
    out.nontrivial = not empty and len(ref.states) >= 3
    # probes
    eps_edges = {(p, q) for p, a, q in ref.trans if a is None}
    if eps_edges:
        out.probe("epsilon_move")
        sub = M.Nfa(ref.states, [], {(p, None, q) for p, q in eps_edges}, ref.states, [])
        if M.Nfa(ref.states, [], {(p, None, q) for p, q in eps_edges}, ref.reachable(), []).has_reachable_cycle():
            out.probe("epsilon_cycle")
    if ref.reachable() - ref.coreachable():
        out.probe("dead_state")
    if len(ref.starts) > 1:
        out.probe("several_start_states")
    # --- predicates ---------------------------------------------------------
    got = out.call("is_empty", fa.is_empty)
    if got is not FAILED and bool(got) != empty:
        out.fail("is_empty:verdict", want=empty, got=got)
    got = out.call("bool", lambda: bool(fa))
    if got is not FAILED and got != (not empty):
        out.fail("bool:verdict", want=not empty, got=got)
    want = ref.is_structurally_deterministic()
    got = out.call("is_deterministic", fa.is_deterministic)
    if got is not FAILED and bool(got) != want and case["kind"] != "dfa":
        out.fail("is_deterministic:verdict", want=want, got=got)
    if case["kind"] == "dfa" and got is not FAILED and got is not True:
        out.fail("is_deterministic:verdict", want=True, got=got)
    want = not ref.has_reachable_cycle()
    got = out.call("is_acyclic", fa.is_acyclic)
    if got is not FAILED and bool(got) != want:
        out.fail("is_acyclic:verdict", want=want, got=got)
    if not want:
        out.probe("reachable_cycle")
    # --- bounded enumeration ---------------------------------------------------
    base_ok = {}
    for n in case["bounds"]:
        wantw = ref.words_upto(n)
        gotw = _words(out, "get_accepted_words", fa.get_accepted_words(n), case)
        if gotw is FAILED:
            continue
        if len(set(gotw)) != len(gotw):
            out.fail("get_accepted_words:duplicate", n=n)
        gs = set(gotw)
        if gs - wantw:
            out.fail("get_accepted_words:extra", n=n, word=list(sorted(gs - wantw)[0]))
        if wantw - gs:
            out.fail("get_accepted_words:missing", n=n, word=list(sorted(wantw - gs, key=lambda w: (len(w), w))[0]))
        base_ok[n] = (gs == wantw and len(gs) == len(gotw))
    # --- unbounded enumeration on finite languages (bounded liveness) -----------
    wantw = ref.all_words() if ref.language_is_finite() else None
    if wantw is not None and len(wantw) > 1500:
        out.probe("finite_language_too_large_for_the_liveness_clause")
    elif wantw is not None:
        out.probe("finite_language")
        if case.get("profile") == "diamonds":
            out.probe("one_word_many_runs")
        b = LineBudget(LINE_BUDGET)
        try:
            with b:
                gotw = _words(out, "get_accepted_words(None)", fa.get_accepted_words(), case)
            out.lines += b.used
            if gotw is not FAILED:
                if set(gotw) != wantw:
                    miss = sorted(wantw - set(gotw), key=lambda w: (len(w), w))
                    ext = sorted(set(gotw) - wantw)
                    out.fail("get_accepted_words(None):set", missing=[list(w) for w in miss[:1]],
                             extra=[list(w) for w in ext[:1]])
                if len(set(gotw)) != len(gotw):
                    out.fail("get_accepted_words(None):duplicate")
        except BudgetExceeded:
            out.lines += b.used
            out.fail("get_accepted_words(None):no-termination", budget=LINE_BUDGET)
    # --- stepping / abandonment (S4) -------------------------------------------
    n = case["bounds"][-1]
    if not base_ok.get(n):
        return   # the plain enumeration is already wrong: derived clauses would only repeat it
    wantw = ref.words_upto(n)
    it = fa.get_accepted_words(n)
    got = []

    def stepper():
        k = case["step_k"]
        for i in range(k):
            try:
                w = next(it)
            except StopIteration:
                return True
            got.append(tuple(key(s.value) for s in w))
            # reference-only work and harmless queries between two steps
            fa.is_empty()
            fa.accepts([s for s in w])
        return False
    done = out.call("get_accepted_words.step", stepper)
    if done is not FAILED:
        out.fault("gen_interleave")
        # a second, independent enumeration started while the first is suspended
        other = _words(out, "get_accepted_words", fa.get_accepted_words(n), case)
        if other is not FAILED and set(other) != wantw:
            out.fail("get_accepted_words:interleaved-second", n=n)
        if not done and case["step_k"] % 2 == 0:
            rest = _words(out, "get_accepted_words.resume", it, case)
            if rest is not FAILED:
                tot = got + rest
                if set(tot) != wantw or len(set(tot)) != len(tot):
                    out.fail("get_accepted_words:resumed", n=n)
        elif not done:
            out.call("get_accepted_words.close", it.close)
            out.fault("gen_abandon")
            again = _words(out, "get_accepted_words", fa.get_accepted_words(n), case)
            if again is not FAILED and set(again) != wantw:
                out.fail("get_accepted_words:after-abandon", n=n)
