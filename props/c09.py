"""C09 CFG clean-up and Chomsky normal form keep the language and the promised shape."""
from gens import cfg as G
from models import cfg as M
from sim.core import FAILED
from props.c08 import probes, bound

from props import scaled as SC
ID = "C09"
CASES = {"quick": 3000, "thorough": 20000}
RULE = ("grammar workload of C08 (profiles forcing the suffix cache, the fast path of to_normal_form, A->A, unit "
        "cycles, nullable chains, empty languages) x value-hash schedule x PYTHONHASHSEED; each transformation's "
        "result is extracted, its bounded language computed by the reference AND by the library's own contains, "
        "and its shape predicates checked; non-trivial = bounded language has >=2 words and the transformation "
        "changed the production set; distinct = (grammar digest, order signature)")
ASSUMPTIONS = ["variable and terminal symbol sets are disjoint; in part of the cases one variable and one terminal carry the same value",
               "bounded comparison: all words of length <= 5 (<=2 terminals) or <= 4 (3 terminals)",
               "remove_epsilon and to_normal_form may drop the empty word (as documented); nothing else"]


def gen(rng, tier):
    sc = SC.maybe(rng, ID)
    if sc is not None:
        return sc
    if rng.chance(0.12):
        # user variables spelled like the fresh C#CNF#n names, together with long bodies sharing suffixes
        if rng.chance(0.6):
            return G.gen_cfg(rng, profile="cnf_names", max_terms=3)
        return G.gen_cfg(rng, profile="suffix", reserved=True, max_prods=4,
                         reserved_pool=["C#CNF#1", "C#CNF#2", "C#CNF#3", "C#CNF#2"])
    if tier == "thorough" and rng.chance(0.25):
        return G.gen_cfg(rng, max_vars=5, max_prods=10, max_body=5, reserved=rng.chance(0.1))
    return G.gen_cfg(rng, reserved=rng.chance(0.1))


def shrink(case):
    if SC.is_scaled(case):
        return iter(())
    return _shrink(case)


def _shrink(case):
    return G.shrink_cfg(case)


def run(case, out):
    if SC.is_scaled(case):
        return SC.run(case, out)
    ref = G.ref_of(case)
    out.shape = G.shape_digest(case)
    out.fault("value_hash" if case.get("hash") else "hashseed_only")
    probes(out, case, ref)
    n = bound(len(case["terms"]))
    lang = ref.words_upto(n)
    lang_ne = lang - {()}
    tks = G.term_keys(case)
    changed = False
    # suffix-sharing probe
    sufs = {}
    for h, b in ref.prods:
        if len(b) > 2:
            for i in range(1, len(b) - 1):
                sufs.setdefault(b[i:], set()).add((h, b))
    if any(len(v) > 1 for v in sufs.values()):
        out.probe("shared_suffix_in_long_bodies")
    for op, drop_eps in (("remove_useless_symbols", False), ("remove_epsilon", True),
                         ("eliminate_unit_productions", False), ("to_normal_form", True)):
        cfg = G.build(case)          # fresh object per operation
        if not out.sig:
            out.sig = G.signature(cfg)
        res = out.call(op, getattr(cfg, op))
        if res is FAILED:
            continue
        rr = G.extract(res)
        if set(rr.prods) != set(ref.prods):
            changed = True
        want = lang_ne if drop_eps else lang
        got = rr.words_upto(n)
        if drop_eps:
            # the empty word may or may not survive; every other word must
            if got - {()} != want or (() in got and () not in lang):
                d = sorted((got - {()}) ^ want, key=lambda w: (len(w), w))
                out.fail(op + ":language", word=list(d[0]) if d else [], in_source=bool(d) and d[0] in lang)
        elif got != want:
            d = sorted(got ^ want, key=lambda w: (len(w), w))
            out.fail(op + ":language", word=list(d[0]), in_source=d[0] in lang)
        # the library's own membership on the returned grammar
        for w in M.words_over(tks, min(n, 3)):
            if drop_eps and not w:
                continue
            g2 = out.call(op + ".contains", res.contains, G.word_values(case, w))
            if g2 is FAILED:
                break
            if bool(g2) != (w in lang):
                out.fail(op + ":contains-of-result", word=list(w), want=w in lang)
                break
        # shape predicates
        if op == "remove_useless_symbols":
            gen = rr.generating_vars()
            reach = rr.reachable()
            for v in sorted(rr.variables):
                if v == rr.start:
                    continue     # the start symbol of an empty-language grammar stays
                if v not in gen:
                    out.fail(op + ":shape:non-generating-variable", symbol=v)
                if v not in reach:
                    out.fail(op + ":shape:unreachable-variable", symbol=v)
            for t in sorted(rr.terminals):
                if t not in reach:
                    out.fail(op + ":shape:unreachable-terminal", symbol=t)
            for h, b in rr.prods:
                if h not in gen or h not in reach or any(M.isvar(x) and x not in gen for x in b):
                    out.fail(op + ":shape:useless-production", prod=[h, list(b)])
                    break
        if op == "remove_epsilon":
            if any(not b for _, b in rr.prods):
                out.fail(op + ":shape:epsilon-production-left")
        if op == "eliminate_unit_productions":
            if any(len(b) == 1 and M.isvar(b[0]) for _, b in rr.prods):
                out.fail(op + ":shape:unit-production-left")
        if op == "to_normal_form":
            nf = out.call("is_normal_form", res.is_normal_form)
            if nf is not FAILED and nf is not True:
                out.fail(op + ":shape:is_normal_form-false")
            for h, b in rr.prods:
                ok = (len(b) == 2 and M.isvar(b[0]) and M.isvar(b[1])) or (len(b) == 1 and not M.isvar(b[0]))
                if not ok:
                    out.fail(op + ":shape:production-not-chomsky", prod=[h, list(b)])
                    break
            if set(rr.prods) == set(ref.prods):
                out.probe("normal_form_fast_path_identity")
    out.nontrivial = len(lang) >= 2 and changed
