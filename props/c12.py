"""C12 CFG emptiness, finiteness, symbol classes and word enumeration are exact."""
from gens import cfg as G
from models import cfg as M
from sim.core import FAILED
from sim.steps import LineBudget, BudgetExceeded
from sim.values import key
from props.c08 import probes

from props import scaled as SC
ID = "C12"
CASES = {"quick": 4000, "thorough": 20000}
RULE = ("grammar workload of C08 x bounds n in 0..5 and unbounded on finite languages x value-hash schedule x "
        "PYTHONHASHSEED; is_empty / is_finite / generating / nullable / reachable against reference fixpoints, "
        "get_words(n) as a duplicate-free list equal as a set to the bounded language; enumeration also stepped "
        "with interleaved queries and abandoned; non-trivial = non-empty language and >=3 productions; distinct "
        "= (grammar digest, order signature)")
ASSUMPTIONS = ["variable and terminal symbol sets are disjoint; in part of the cases one variable and one terminal carry the same value",
               "bounded liveness: get_words() on a finite language must finish within LINE_BUDGET line events"]
LINE_BUDGET = 3000000


def gen(rng, tier):
    sc = SC.maybe(rng, ID)
    if sc is not None:
        return sc
    c = G.gen_cfg(rng, max_vars=5, max_prods=10, max_body=5) if (tier == "thorough" and rng.chance(0.25)) \
        else G.gen_cfg(rng)
    if c["valmode"] == "str" and rng.chance(0.08):
        # terminals that print alike (1 / "1" / "1 1"), or int-valued variables (the start symbol is 0, a falsy value)
        c["valmode"] = rng.pick(["mixed2", "ivar"])
    c["bounds"] = sorted(rng.sample(range(0, 6), 2))
    c["step_k"] = rng.randint(0, 4)
    return c


def shrink(case):
    if SC.is_scaled(case):
        return iter(())
    return _shrink(case)


def _shrink(case):
    for c in G.shrink_cfg(case):
        yield c
    if len(case["bounds"]) > 1:
        for b in case["bounds"]:
            yield dict(case, bounds=[b])


def _consume(out, op, it):
    def go():
        res = []
        for w in it:
            if not isinstance(w, list):
                res.append(("#not-a-list#", type(w).__name__))
                continue
            res.append(tuple(G.lib_sym(x) for x in w))
        return res
    return out.call(op, go)


def _check_words(out, clause, got, want, **kw):
    """got: list of tuples of (kind,key); want: set of tuples of terminal keys"""
    for w in got:
        if any(k != "T" for k, _ in w):
            out.fail(clause + ":non-terminal-in-word", word=[list(x) for x in w], **kw)
            return False
    gw = [tuple(k for _, k in w) for w in got]
    ok = True
    if len(set(gw)) != len(gw):
        out.fail(clause + ":duplicate", **kw)
        ok = False
    gs = set(gw)
    if gs - want:
        out.fail(clause + ":extra", word=list(sorted(gs - want, key=lambda w: (len(w), w))[0]), **kw)
        ok = False
    if want - gs:
        out.fail(clause + ":missing", word=list(sorted(want - gs, key=lambda w: (len(w), w))[0]), **kw)
        ok = False
    return ok


def run(case, out):
    if SC.is_scaled(case):
        return SC.run(case, out)
    ref = G.ref_of(case)
    out.shape = G.shape_digest(case) + str(case["bounds"])
    out.fault("value_hash" if case.get("hash") else "hashseed_only")
    probes(out, case, ref)
    empty = ref.is_empty()
    finite = ref.is_finite()
    out.nontrivial = not empty and len(ref.prods) >= 3
    out.probe("finite_language" if finite else "infinite_language")
    cfg = G.build(case)
    out.sig = G.signature(cfg)
    got = out.call("is_empty", cfg.is_empty)
    if got is not FAILED and bool(got) != empty:
        out.fail("is_empty:verdict", want=empty, got=got)
    got = out.call("bool", lambda: bool(G.build(case)))
    if got is not FAILED and got != (not empty):
        out.fail("bool:verdict", want=not empty)
    got = out.call("is_finite", G.build(case).is_finite)
    if got is not FAILED and bool(got) != finite:
        out.fail("is_finite:verdict", want=finite, got=got)
    for op, want in (("get_generating_symbols", ref.generating()), ("get_nullable_symbols", ref.nullable()),
                     ("get_reachable_symbols", ref.reachable())):
        got = out.call(op, getattr(G.build(case), op))
        if got is FAILED:
            continue
        gs = {G.lib_sym(x) for x in got}
        if gs != want:
            d = sorted(gs ^ want)
            out.fail(op + ":set", symbol=list(d[0]), in_reference=d[0] in want)
    # the same queries on grammars the library built itself (their productions are lists, with repetitions): the
    # reference is the extraction of that grammar
    for tr in ("eliminate_unit_productions", "remove_epsilon", "remove_useless_symbols"):
        r = out.call(tr + "(first)", getattr(G.build(case), tr))
        if r is FAILED:
            continue
        rr = G.extract(r)
        if rr.start is None:
            continue
        got = out.call(tr + ".is_empty", r.is_empty)
        if got is not FAILED and bool(got) != rr.is_empty():
            out.fail(tr + ".is_empty:verdict", want=rr.is_empty(), got=got)
        for op, want in (("get_generating_symbols", rr.generating()), ("get_nullable_symbols", rr.nullable()),
                         ("get_reachable_symbols", rr.reachable())):
            got = out.call(tr + "." + op, getattr(r, op))
            if got is FAILED:
                continue
            gs = {G.lib_sym(x) for x in got}
            if gs != want:
                d = sorted(gs ^ want)
                out.fail(tr + "." + op + ":set", symbol=list(d[0]), in_reference=d[0] in want)
        out.probe("queries_on_a_transformed_grammar")
    base_ok = {}
    for n in case["bounds"]:
        want = ref.words_upto(n)
        got = _consume(out, "get_words", G.build(case).get_words(n))
        if got is FAILED:
            continue
        base_ok[n] = _check_words(out, "get_words", got, want, n=n)
    want = ref.all_words_if_finite() if finite else None
    if finite and (len(want) > 300 or max(map(len, want), default=0) > 10):
        # a finite but huge language (doubling chains give 2^16 words): the enumeration is legitimately long
        out.probe("finite_language_too_large_for_the_liveness_clause")
    elif finite:
        b = LineBudget(LINE_BUDGET)
        try:
            with b:
                got = _consume(out, "get_words()", G.build(case).get_words())
            out.lines += b.used
            if got is not FAILED:
                _check_words(out, "get_words()", got, want)
        except BudgetExceeded:
            out.lines += b.used
            out.fail("get_words():no-termination", budget=LINE_BUDGET)
    # stepping / abandonment
    n = case["bounds"][-1]
    if base_ok.get(n):
        want = ref.words_upto(n)
        cfg = G.build(case)
        it = cfg.get_words(n)
        got = []

        def stepper():
            for _ in range(case["step_k"]):
                try:
                    w = next(it)
                except StopIteration:
                    return True
                got.append(tuple(G.lib_sym(x) for x in w))
                cfg.is_empty()
                cfg.contains(w)
                cfg.get_nullable_symbols()
            return False
        done = out.call("get_words.step", stepper)
        if done is not FAILED:
            out.fault("gen_interleave")
            if not done and case["step_k"] % 2 == 0:
                rest = _consume(out, "get_words.resume", it)
                if rest is not FAILED:
                    _check_words(out, "get_words(resumed)", got + rest, want, n=n)
            elif not done:
                out.call("get_words.close", it.close)
                out.fault("gen_abandon")
                again = _consume(out, "get_words", cfg.get_words(n))
                if again is not FAILED:
                    _check_words(out, "get_words(after-abandon)", again, want, n=n)
