"""C11 Intersection with a regular language (CFG and PDA) is exact."""
from gens import cfg as GC
from gens import pda as GP
from gens import fa as GF
from gens import regex as GR
from models import fa as MF
from models import regex as MR
from sim.core import FAILED

ID = "C11"
CASES = {"quick": 3000, "thorough": 9000}
RULE = ("seeded (grammar | PDA) x (Regex | DFA | NFA | epsilon-NFA, incl. deterministic automata that are "
        "instances of the NFA / epsilon-NFA classes) pairs with partly overlapping alphabets, empty languages "
        "and epsilon on either side x value-hash schedule x PYTHONHASHSEED; result grammar: bounded language by "
        "extraction and by contains; result PDA: final-state language by the reference saturation; compared "
        "with (bounded language of the source) intersect (exact reference language of the automaton); other "
        "operand types must raise NotImplementedError; non-trivial = intersection (<=4) non-empty and smaller "
        "than the source language; distinct = (pair digest, order signature)")
ASSUMPTIONS = ["bounded comparison: words of length <= 4", "variable and terminal symbol sets are disjoint; in part of the cases one variable and one terminal carry the same value"]
N = 4


def gen(rng, tier):
    left = "cfg" if rng.chance(0.6) else "pda"
    if left == "cfg":
        g = GC.gen_cfg(rng, max_vars=3, max_prods=6, max_body=3)
        if g["valmode"] in ("str", "V") and rng.chance(0.2):
            g.update(valmode=rng.pick(["mixed", "binint", "binint", "tup"]), hash=None, hashmode="plain")
        if rng.chance(0.03):
            g["no_start"] = True          # CFG(): no start symbol (what an empty intersection returns)
        # the automaton's symbols are the grammar's terminal values, also when those are ints and floats
        symmode = "V" if g["valmode"] == "V" else "cfg:" + g["valmode"] if g["valmode"] in GC.TERM_MAPS else "str"
        terms = g["terms"]
    else:
        p = GP.gen_pda(rng, reserved=False)
        symmode = "str"
        terms = p["inputs"]
    rk = rng.weighted([("regex", 2 if symmode == "str" else 0), ("dfa", 3), ("nfa", 3), ("enfa", 3),
                       ("det_as_nfa", 2), ("det_as_enfa", 2)])
    case = {"left": left, "right": rk}
    if left == "cfg":
        case["g"] = g
    else:
        case["p"] = p
    pool = list(dict.fromkeys(terms + GC.TERMS))[:3]
    if rk == "regex":
        toks = pool[:rng.randint(1, 3)]
        t = GR.gen_tree(rng, toks, depth=rng.randint(1, 3))
        case["regex"] = GR.to_text(t, rng)
        case["tree"] = t
    else:
        kind = {"dfa": "dfa", "nfa": "nfa", "enfa": "enfa", "det_as_nfa": "dfa", "det_as_enfa": "dfa"}[rk]
        fa = GF.gen_fa(rng, kind=kind, max_states=3, max_symbols=3, max_trans=6, adversarial=False,
                       plain_symbols=(symmode != "V"))
        # use the left operand's symbols (partly overlapping alphabets)
        ren = dict(zip(GF.SYMBOLS, pool))
        ren.update(dict(zip(GF.MULTI_SYMBOLS, pool + [pool[0]])))
        fa["symbols"] = sorted({ren[s] for s in fa["symbols"]})
        tr = []
        for p_, a, q in fa["trans"]:
            t = [p_, None if a is None else ren[a], q]
            if t not in tr:
                tr.append(t)
        fa["trans"] = tr
        fa["extra_symbols"] = []
        GF.fix_kind(fa)
        if rk == "det_as_nfa":
            fa["kind"] = "nfa" if fa["kind"] == "dfa" else fa["kind"]
        if rk == "det_as_enfa":
            fa["kind"] = "enfa" if fa["kind"] == "dfa" else fa["kind"]
        if rng.chance(0.45):
            # an automaton built around words the left operand generates (prefix tree of a sample, plus noise), so that
            # the intersection is non-empty and strictly smaller more often than with an unrelated automaton
            if left == "cfg":
                back = {GC.key(GC.val(g, t)): t for t in g["terms"]}
                src_words = sorted(tuple(back.get(k, k.split(":", 1)[1]) for k in w)
                                   for w in GC.ref_of(g).words_upto(N))
            else:
                src_words = sorted(GP.ref_of(p).lang_final_state(N))
            src_words = [w for w in src_words if all(x in pool for x in w)]
            if src_words:
                sample = rng.sample(src_words, min(len(src_words), rng.randint(1, 3)))
                names = ["t%d" % i for i in range(14)]
                ids = {(): names[0]}
                tr = []
                finals = []
                for w in sample:
                    for i in range(len(w)):
                        if w[:i + 1] not in ids:
                            if len(ids) >= len(names):
                                break
                            ids[w[:i + 1]] = names[len(ids)]
                            tr.append([ids[w[:i]], w[i], ids[w[:i + 1]]])
                    if w in ids:
                        finals.append(ids[w])
                if rng.chance(0.5) and tr:
                    t = rng.pick(tr)
                    loop = [t[2], rng.pick(pool), t[2]]
                    if not any(x[0] == loop[0] and x[1] == loop[1] for x in tr):
                        tr.append(loop)
                fa.update({"states": list(ids.values()), "trans": tr, "starts": [names[0]],
                           "finals": sorted(set(finals)), "symbols": sorted({t[1] for t in tr}) or [pool[0]],
                           "ghost_trans": None, "ghost_final": None, "eps_string_edge": None,
                           "kind": {"dfa": "dfa", "nfa": "nfa", "enfa": "enfa", "det_as_nfa": "nfa",
                                    "det_as_enfa": "enfa"}[rk]})
                if fa["valmode"] == "int":
                    fa["valmode"] = "str"
        fa["symmode"] = symmode
        if rng.chance(0.1):
            GF.mix_states(fa)          # int and str state values in one automaton (not mutually comparable)
        h = dict(fa.get("hash") or {})
        if symmode == "V":
            for s in fa["symbols"] + [GF.FOREIGN]:
                h["Y:" + s] = g["hash"].get("N:" + s, rng.getrandbits(30))
        else:
            h = {k: v for k, v in h.items() if not k.startswith("Y:")}
        if fa["valmode"] == "V":
            for s in fa["states"]:
                h.setdefault("S:" + s, rng.getrandbits(30))
        fa["hash"] = h or None
        if fa["hash"] is None and fa["valmode"] == "V":
            fa["valmode"] = "str"
        case["fa"] = fa
    case["bad_operand"] = rng.pick(["str", "int", "none", "cfg", "list"])
    return case


def shrink(case):
    if case["left"] == "cfg":
        for c in GC.shrink_cfg(case["g"]):
            if c["valmode"] == case["g"]["valmode"] and c.get("hash") == case["g"].get("hash"):
                yield dict(case, g=c)
    else:
        for c in GP.shrink_pda(case["p"]):
            yield dict(case, p=c)
    if "fa" in case:
        for c in GF.shrink_fa(case["fa"]):
            if c["symmode"] == case["fa"]["symmode"] and c["kind"] == case["fa"]["kind"]:
                yield dict(case, fa=c)


def _right(case):
    """(real operand, reference Nfa over word keys)"""
    if case["right"] == "regex":
        from pyformlang.regular_expression import Regex
        rx = Regex(case["regex"])
        tree = GR.map_syms(tuple(_tt(case["tree"])), lambda s: "s:" + s)
        return rx, MR.to_nfa(tree)
    fa = GF.build(case["fa"])
    return fa, GF.ref_of(case["fa"])


def _tt(t):
    return tuple(_tt(x) if isinstance(x, list) else x for x in t)


def run(case, out):
    from pyformlang.cfg import CFG
    from pyformlang.pda import PDA
    robj, rref = _right(case)
    out.probe("right_" + case["right"])
    if case["right"] != "regex":
        if rref.is_structurally_deterministic() and case["fa"]["kind"] != "dfa":
            out.probe("deterministic_instance_of_nondeterministic_class")
    if rref.is_empty():
        out.probe("regular_language_empty")
    if rref.accepts(()):
        out.probe("epsilon_in_regular_language")
    bad = {"str": "ab", "int": 3, "none": None, "cfg": "cfg", "list": ["a"]}[case["bad_operand"]]
    if case["left"] == "cfg":
        g = case["g"]
        ref = GC.ref_of(g)
        out.shape = GC.shape_digest(g) + str(case.get("regex")) + (GF.shape_digest(case["fa"]) if "fa" in case else "")
        out.fault("value_hash" if g.get("hash") else "hashseed_only")
        src = ref.words_upto(N)
        want = {w for w in src if rref.accepts(w)}
        out.nontrivial = bool(want) and len(want) < len(src)
        if not src:
            out.probe("grammar_language_empty")
        if () in src:
            out.probe("epsilon_in_grammar_language")
        cfg = GC.build(g)
        out.sig = GC.signature(cfg)
        res = out.call("cfg.intersection", cfg.intersection, robj)
        if res is not FAILED:
            if not isinstance(res, CFG):
                out.fail("cfg.intersection:not-a-CFG")
            else:
                got = GC.extract(res).words_upto(N)
                if got != want:
                    d = sorted(got ^ want, key=lambda w: (len(w), w))
                    out.fail("cfg.intersection:language", word=list(d[0]), want=d[0] in want)
                else:
                    tks = sorted(set(GC.term_keys(g)) | set(rref.alphabet))
                    vals = {GC.key(GC.val(g, t)): GC.val(g, t) for t in g["terms"] + GC.TERMS + [GC.FOREIGN]}
                    import itertools
                    for ln in range(0, 4):
                        for w in itertools.product(tks, repeat=ln):
                            if not all(k in vals for k in w):
                                continue
                            c = out.call("cfg.intersection.contains", res.contains, [vals[k] for k in w])
                            if c is FAILED:
                                break
                            if bool(c) != (w in want):
                                out.fail("cfg.intersection:contains-of-result", word=list(w), want=w in want)
                                break
        # the result as operand: intersecting it again with the same regular language changes nothing
        if res is not FAILED and isinstance(res, CFG) and len(res.productions) <= 60:
            again = out.call("cfg.intersection.intersection", res.intersection, _right(case)[0])
            if again is not FAILED and isinstance(again, CFG):
                got = GC.extract(again).words_upto(N)
                if got != want:
                    d = sorted(got ^ want, key=lambda w: (len(w), w))
                    out.fail("cfg.intersection.intersection:language", word=list(d[0]), want=d[0] in want)
        # `&` operator form
        res2 = out.call("cfg.and", lambda: GC.build(g) & _right(case)[0])
        if res2 is not FAILED and isinstance(res2, CFG):
            got = GC.extract(res2).words_upto(N)
            if got != want:
                d = sorted(got ^ want, key=lambda w: (len(w), w))
                out.fail("cfg.and:language", word=list(d[0]), want=d[0] in want)
        target = GC.build(g)
        if bad == "cfg":
            bad = GC.build(g)
    else:
        p = case["p"]
        ref = GP.ref_of(p)
        out.shape = GP.shape_digest(p) + str(case.get("regex")) + (GF.shape_digest(case["fa"]) if "fa" in case else "")
        out.fault("value_hash" if p.get("hash") else "hashseed_only")
        src = {tuple("s:" + a for a in w) for w in ref.lang_final_state(N)}
        want = {w for w in src if rref.accepts(w)}
        out.nontrivial = bool(want) and len(want) < len(src)
        pda = GP.build(p)
        out.sig = GP.signature(pda)
        res = out.call("pda.intersection", pda.intersection, robj)
        if res is not FAILED:
            if not isinstance(res, PDA):
                out.fail("pda.intersection:not-a-PDA")
            else:
                rr = GP.extract(res)
                got = {tuple("s:" + a for a in w) for w in rr.lang_final_state(N)}
                if got != want:
                    d = sorted(got ^ want, key=lambda w: (len(w), w))
                    out.fail("pda.intersection:language", word=list(d[0]), want=d[0] in want)
        res2 = out.call("pda.and", lambda: GP.build(p) & _right(case)[0])
        if res2 is not FAILED and isinstance(res2, PDA):
            got = {tuple("s:" + a for a in w) for w in GP.extract(res2).lang_final_state(N)}
            if got != want:
                out.fail("pda.and:language")
        target = GP.build(p)
        if bad == "cfg":
            bad = GC.build({"vars": ["S"], "terms": ["a"], "start": "S", "prods": [["S", ["a"]]], "valmode": "str",
                            "hash": None})
    out.ops += 1
    try:
        target.intersection(bad)
        out.fail("intersection:bad-operand-accepted", operand=case["bad_operand"])
    except NotImplementedError:
        out.fault("error_path")
    except Exception as e:
        out.fail("intersection:bad-operand-wrong-exception:" + type(e).__name__, operand=case["bad_operand"])
    out.ops += 1
    try:
        target & bad
        out.fail("and:bad-operand-accepted", operand=case["bad_operand"])
    except NotImplementedError:
        out.fault("error_path")
    except Exception as e:
        out.fail("and:bad-operand-wrong-exception:" + type(e).__name__, operand=case["bad_operand"])
