"""C16 FST translation is the transduction relation; FST operations compose relations."""
import itertools
from gens import fst as G
from gens import fa as GF
from models import fst as M
from sim.core import FAILED
from sim.steps import LineBudget, BudgetExceeded

ID = "C16"
CASES = {"quick": 1500, "thorough": 15000}
RULE = ("seeded transducers (nondeterministic, several start/final states, epsilon-input moves incl. output-free "
        "epsilon cycles, start states with incoming and final states with outgoing transitions, operands "
        "sharing state names 'a','a0','a00', int-valued states) x value-hash schedule x PYTHONHASHSEED; "
        "translate(w) for all |w|<=3(4) as a set against the exhaustive-path reference relation; union / "
        "concatenation / star by reference relation algebra on the extracted result and by the result's own "
        "translate; to_fst = identity on L; non-trivial = relation on inputs <=3 has >=2 pairs; distinct = "
        "(descriptor digest, order signature)")
ASSUMPTIONS = ["only transducers whose epsilon cycles write nothing (the property's domain); for results of "
               "operations this is checked on the reference result before translate is called",
               "translate runs under a line-event budget; exceeding it on an in-domain transducer is a violation"]
BUDGET = 40000


def gen(rng, tier):
    a = G.gen_fst(rng)
    pool = (G.INT_STATES, "int") if a["valmode"] == "int" else \
        ((["0", "end", "1", "mid"], "mixed") if a["valmode"] == "mixed" else None)
    b = G.gen_fst(rng, pool=pool, allow_int=False) if pool else G.gen_fst(rng, allow_int=False)
    # one value, one hash: names shared by the operands get the same scheduler hash
    if a.get("hash") and b.get("hash"):
        for kk, v in a["hash"].items():
            if kk in b["hash"]:
                b["hash"][kk] = v
    elif b.get("hash") and not a.get("hash"):
        if set(a["states"]) & set(b["states"]):
            b["hash"] = None
    elif a.get("hash") and not b.get("hash"):
        if set(a["states"]) & set(b["states"]):
            b["hash"] = {kk: a["hash"].get(kk, rng.getrandbits(30)) for kk in ("S:" + s for s in b["states"])}
    if rng.chance(0.12):
        G.intify(a)
        G.intify(b)
    fa = GF.gen_fa(rng, plain_symbols=True, adversarial=False, max_states=4, max_trans=6)
    fa["symbols"] = [{"a": "x", "b": "y", "c": "x", "ab": "x", "abc": "y"}.get(s, s) for s in fa["symbols"]]
    tr = []
    for p, x, q in fa["trans"]:
        t = [p, None if x is None else {"a": "x", "b": "y", "c": "x", "ab": "x", "abc": "y"}.get(x, x), q]
        if t not in tr:
            tr.append(t)
    fa["trans"] = tr
    fa["symbols"] = sorted(set(fa["symbols"]))
    fa["extra_symbols"] = []
    GF.fix_kind(fa)
    return {"a": a, "b": b, "fa": fa, "same_object": rng.chance(0.07)}


def shrink(case):
    for side in ("a", "b"):
        for c in G.shrink_fst(case[side]):
            if c.get("hash") != case[side].get("hash"):
                continue
            yield dict(case, **{side: c})
    if case["a"].get("hash") or case["b"].get("hash"):
        yield dict(case, a=dict(case["a"], hash=None), b=dict(case["b"], hash=None))
    for c in GF.shrink_fa(case["fa"]):
        if c["symmode"] == "str":
            yield dict(case, fa=c)
    if case["same_object"]:
        yield dict(case, same_object=False)


def _translate(out, op, fst, word, ref=None, scale=None):
    # bounded liveness: the step budget grows with the number of configurations the reference has to walk for this
    # input (measured: the real translate spends < 80 line events per configuration; 400 leaves a factor 5)
    if ref is not None:
        budget = 3000 + 400 * ref.configurations(word)
    elif scale is not None:
        budget = 3000 + 400 * scale
    else:
        budget = BUDGET
    b = LineBudget(budget)
    try:
        with b:
            # the input word as a list, a tuple or a one-shot iterator (`input_word : iterable of any`)
            wform = (list, tuple, lambda x: iter(list(x)))[len(word) % 3]
            res = out.call(op, lambda: [tuple(o) for o in fst.translate(wform(word))])
        out.lines += b.used
        return res
    except BudgetExceeded:
        out.lines += b.used
        out.fail(op + ":no-termination", word=list(word), budget=budget)
        return FAILED


def _words(alpha, n):
    for ln in range(n + 1):
        for w in itertools.product(sorted(alpha), repeat=ln):
            yield w


def _check_rel(out, op, fst, ref, alpha, n):
    """the real transducer's translate against the reference relation"""
    for w in _words(alpha, n):
        want = ref.outputs(w)
        got = _translate(out, op, fst, w, ref=ref)
        if got is FAILED:
            return False
        if set(got) != want:
            d = sorted(set(got) ^ want, key=repr)
            out.fail(op + ":relation", input=list(w), output=list(d[0]), in_reference=d[0] in want)
            return False
    return True


def _check_op(out, op, res, want_ref, alpha, n):
    if res is FAILED:
        return
    rr = G.extract(res)
    if want_ref.writing_eps_cycle():
        out.probe("result_outside_domain_skipped")
        return
    if rr.writing_eps_cycle():
        out.fail(op + ":result-has-writing-epsilon-cycle")
        return
    for w in _words(alpha, n):
        want = want_ref.outputs(w)
        got = rr.outputs(w)
        if got != want:
            d = sorted(got ^ want, key=repr)
            out.fail(op + ":relation", input=list(w), output=list(d[0]), in_reference=d[0] in want)
            return
    # and through the result's own translate
    _check_rel(out, op + ".translate", res, want_ref, alpha, min(n, 2))


def run(case, out):
    try:
        _run(case, out)
    except M.TooLarge:
        # the reference relation of some operation result is too large to enumerate: nothing is concluded
        out.probe("reference_relation_too_large_skipped")


def _run(case, out):
    ca, cb = case["a"], case["b"]
    if case["same_object"]:
        cb = ca
        out.fault("same_object_twice")
    ra, rb = G.ref_of(ca), G.ref_of(cb)
    out.shape = G.shape_digest(ca) + G.shape_digest(cb) + GF.shape_digest(case["fa"])
    out.fault("value_hash" if ca.get("hash") else "hashseed_only")
    alpha = sorted(set(ca["inputs"]) | set(cb["inputs"]))
    n = 3 if len(alpha) > 1 else 4
    pairs = sum(len(ra.outputs(w)) for w in _words(alpha, 3))
    out.nontrivial = pairs >= 2
    if any(t[2] in ra.starts for t in ra.trans):
        out.probe("start_state_with_incoming_edge")
    if any(t[0] in ra.finals for t in ra.trans):
        out.probe("final_state_with_outgoing_edge")
    if any(t[1] is None for t in ra.trans):
        out.probe("epsilon_input_move")
    if set(ca["states"]) & set(cb["states"]):
        out.probe("operands_share_state_names")
    if not ra.finals:
        out.probe("no_final_state")
    if ca["valmode"] == "int":
        out.probe("int_states")
    if ca["valmode"] == "mixed":
        out.probe("int_and_str_states_mixed")
    fa = G.build(ca)
    out.sig = G.signature(fa)
    _check_rel(out, "translate", fa, ra, alpha, n)
    # lazy generator: stepped, interleaved with a second translation, abandoned
    it = fa.translate(list(alpha[:1] * 2))
    first = out.call("translate.step", lambda: next(it, None))
    if first is not FAILED:
        out.fault("gen_interleave")
        other = _translate(out, "translate", fa, alpha[:1] * 2, ref=ra)
        if other is not FAILED and set(other) != ra.outputs(tuple(alpha[:1] * 2)):
            out.fail("translate:interleaved-second")
        out.call("translate.close", it.close)
        out.fault("gen_abandon")

    def objs():
        x = G.build(ca)
        return x, (x if case["same_object"] else G.build(cb))
    x, y = objs()
    _check_op(out, "union", out.call("union", x.union, y), M.union(ra, rb), alpha, n)
    x, y = objs()
    _check_op(out, "or", out.call("or", lambda: x | y), M.union(ra, rb), alpha, n)
    x, y = objs()
    _check_op(out, "concatenate", out.call("concatenate", x.concatenate, y), M.concat(ra, rb), alpha, n)
    x, y = objs()
    _check_op(out, "add", out.call("add", lambda: x + y), M.concat(ra, rb), alpha, n)
    x, y = objs()
    _check_op(out, "kleene_star", out.call("kleene_star", x.kleene_star), M.star(ra), alpha, n)
    # operations on the results of operations (a union of int-named operands has int and str names)
    x, y = objs()
    u = out.call("union", x.union, y)
    if u is not FAILED:
        ru = M.union(ra, rb)
        _check_op(out, "union.kleene_star", out.call("union.kleene_star", u.kleene_star), M.star(ru), alpha, min(n, 2))
        x2, _ = objs()
        _check_op(out, "union.concatenate", out.call("union.concatenate", u.concatenate, x2), M.concat(ru, ra), alpha,
                  min(n, 2))
    # automaton -> identity transducer
    rfa = GF.ref_of(case["fa"])
    afa = GF.build(case["fa"])
    f = out.call("to_fst", afa.to_fst)
    if f is not FAILED:
        for w in _words(["x", "y"], 3):
            want = {tuple(w)} if rfa.accepts(tuple("s:" + s for s in w)) else set()
            got = _translate(out, "to_fst.translate", f, w, scale=(len(rfa.states) + 1) * (len(w) + 1) * 3)
            if got is FAILED:
                break
            if set(got) != want:
                out.fail("to_fst:relation", input=list(w), got=[list(o) for o in sorted(set(got), key=repr)][:3],
                         member=bool(want))
                break
