"""C03 Boolean and rational operations on automata compute the set-theoretic result."""
from gens import fa as G
from models import fa as M
from sim.core import FAILED

ID = "C03"
CASES = {"quick": 3000, "thorough": 25000}
RULE = ("seeded epsilon-NFAs and ordered pairs (overlapping / disjoint alphabets, colliding state names, "
        "'a; b' and 'TrashNode' look-alikes) x value-hash schedule x PYTHONHASHSEED; each operation's result is "
        "extracted and compared exactly (pair-graph walk) with the reference set algebra; non-trivial = both "
        "operand languages non-empty; distinct = (pair structure digest, order signature)")
ASSUMPTIONS = ["every operation runs on every kind of symbol value (plain strings, V objects, ints / floats, multi-character "
               "strings); up to fix FX-41 union/concatenate/kleene_star went through to_regex and were checked on plain "
               "tokens only"]

PAIR_POOL = ["a", "b", "a; b", "b; a", "TrashNode", "c", "a; b; c", "q0", "q1"]


def gen(rng, tier):
    plain = rng.chance(0.45)
    pool = None
    if rng.chance(0.3):
        pool = (rng.sample(PAIR_POOL[:7], 7), rng.pick(["str", "str", "V"]))
    a = G.gen_fa(rng, plain_symbols=plain, name_pool=pool, max_states=4, max_trans=7)
    b = G.gen_fa(rng, plain_symbols=plain, max_states=4, max_trans=7,
                 name_pool=((G.INT_STATES, "int") if a["valmode"] == "int" else (G.PLAIN_STATES, a["valmode"])))
    if a["valmode"] == "V" and not a.get("hash"):
        a["valmode"] = "str"
    # alphabets: same / overlapping / disjoint
    r = rng.random()
    if r < 0.2:
        b["symbols"] = ["d", "e"][:max(1, len(b["symbols"]) - 1)]
        b["trans"] = [[p, (None if x is None else b["symbols"][hash_free_index(x) % len(b["symbols"])]), q]
                      for p, x, q in b["trans"]]
    elif r < 0.45:
        ren = {"a": "b", "b": "c", "c": "d", "ab": "b", "abc": "c"}
        b["symbols"] = sorted({ren.get(s, s) for s in b["symbols"]})
        b["trans"] = [[p, (None if x is None else ren.get(x, x)), q] for p, x, q in b["trans"]]
    b["symmode"] = a["symmode"]
    b["valmode"] = a["valmode"] if b["valmode"] != "int" else "int"
    h = dict(a.get("hash") or {})
    for k, v in (b.get("hash") or {}).items():
        h.setdefault(k, v)
    need = []
    for c in (a, b):
        if c["valmode"] == "V":
            need += ["S:" + s for s in c["states"]]
        if c["symmode"] == "V":
            need += ["Y:" + s for s in c["symbols"]] + ["Y:" + G.FOREIGN]
    for k in need:
        h.setdefault(k, rng.getrandbits(rng.pick([6, 30, 61])))
    a["hash"] = b["hash"] = (h or None)
    # dedupe transitions of b after renaming; keep DFA legal
    tr = []
    for t in b["trans"]:
        if t not in tr:
            tr.append(t)
    b["trans"] = tr
    for c in (a, b):
        if c["kind"] == "dfa":
            pa = [(p, x) for p, x, q in c["trans"]]
            if len(set(pa)) != len(pa):
                c["kind"] = "nfa"
    same = rng.chance(0.07) or (pool is not None and rng.chance(0.3))
    if pool is not None and not same and rng.chance(0.5) and b["valmode"] != "int":
        # the second operand draws its names from the same colliding pool
        ren = dict(zip(b["states"], rng.sample(PAIR_POOL[:7], len(b["states"]))))
        b["states"] = [ren[s_] for s_ in b["states"]]
        b["trans"] = [[ren[p_], x_, ren[q_]] for p_, x_, q_ in b["trans"]]
        b["starts"] = [ren[s_] for s_ in b["starts"]]
        b["finals"] = [ren[s_] for s_ in b["finals"]]
        if b["valmode"] == "V":
            for s_ in b["states"]:
                h.setdefault("S:" + s_, rng.getrandbits(30))
            a["hash"] = b["hash"] = h
    return {"a": a, "b": b, "same_object": same, "plain": plain}


def hash_free_index(x):
    return sum(map(ord, x))


def shrink(case):
    for side in ("a", "b"):
        for c in G.shrink_fa(case[side]):
            if c.get("hash") != case[side].get("hash") or c["valmode"] != case[side]["valmode"] \
                    or c["symmode"] != case[side]["symmode"]:
                # value-kind changes must be applied to both operands together
                continue
            d = dict(case)
            d[side] = c
            yield d
    a, b = case["a"], case["b"]
    if a.get("hash"):
        ident = {n: i for i, n in enumerate(sorted(a["hash"]))}
        if ident != a["hash"]:
            yield dict(case, a=dict(a, hash=ident), b=dict(b, hash=ident))
        if "int" not in (a["valmode"], b["valmode"]):
            yield dict(case, a=dict(a, hash=None, valmode="str", symmode="str"),
                       b=dict(b, hash=None, valmode="str", symmode="str"))
    if case.get("same_object"):
        yield dict(case, same_object=False)


def _cmp(out, op, res, want_view, alpha, **info):
    if res is FAILED:
        return
    rr = G.extract(res)
    w = M.distinguish(want_view, M.Sub(rr), set(alpha) | rr.alphabet)
    if w is not None:
        out.fail(op + ":language", word=list(w), **info)


def run(case, out):
    ca, cb = case["a"], case["b"]
    ra = G.ref_of(ca)
    fa = G.build(ca)
    if case.get("same_object"):
        cb, rb, fb = ca, ra, fa
        out.fault("same_object_twice")
    else:
        rb = G.ref_of(cb)
        fb = G.build(cb)
    out.sig = G.signature(fa) + "||" + G.signature(fb)
    out.shape = G.shape_digest(ca) + G.shape_digest(cb) + str(case.get("same_object"))
    out.fault("value_hash" if ca.get("hash") else "hashseed_only")
    alpha = set(G.alphabet_keys(ca)) | set(G.alphabet_keys(cb))
    out.nontrivial = not ra.is_empty() and not rb.is_empty()
    if ra.alphabet & rb.alphabet and ra.alphabet != rb.alphabet:
        out.probe("overlapping_alphabets")
    if not (ra.alphabet & rb.alphabet):
        out.probe("disjoint_alphabets")
    if ra.states & rb.states:
        out.probe("colliding_state_names")
    if not ra.is_structurally_deterministic():
        out.probe("nondeterministic_operand")
    if any(x is None for _, x, _ in ra.trans):
        out.probe("epsilon_operand")
    if len(ra.starts) > 1:
        out.probe("several_start_states")
    A, B = M.Sub(ra), M.Sub(rb)
    # --- boolean operations (any symbol values) --------------------------------
    _cmp(out, "get_intersection", out.call("get_intersection", fa.get_intersection, fb), M.And(A, B), alpha)
    _cmp(out, "and", out.call("and", lambda: fa & fb), M.And(A, B), alpha)
    # complement relative to the automaton's own alphabet (its `symbols`)
    sigma = {G.key(s.value) for s in fa.symbols}
    _cmp(out, "get_complement", out.call("get_complement", fa.get_complement), M.Not(A, sigma), alpha)
    _cmp(out, "neg", out.call("neg", lambda: -fa), M.Not(A, sigma), alpha)
    _cmp(out, "get_difference", out.call("get_difference", fa.get_difference, fb), M.Diff(A, B), alpha)
    _cmp(out, "sub", out.call("sub", lambda: fa - fb), M.Diff(A, B), alpha)
    _cmp(out, "reverse", out.call("reverse", fa.reverse), M.Sub(M.reverse(ra)), alpha)
    _cmp(out, "invert", out.call("invert", lambda: ~fa), M.Sub(M.reverse(ra)), alpha)
    # --- rational operations (on every kind of symbol value) ---
    if True:
        if not (case.get("plain") and ca["symmode"] == "str"):
            out.probe("rational_ops_on_non_plain_symbols")
        _cmp(out, "union", out.call("union", fa.union, fb), M.Or(A, B), alpha)
        _cmp(out, "concatenate", out.call("concatenate", fa.concatenate, fb), M.Sub(M.concat(ra, rb)), alpha)
        _cmp(out, "kleene_star", out.call("kleene_star", fa.kleene_star), M.Sub(M.star(ra)), alpha)
        out.probe("rational_ops_run")
    # --- operations on the results of operations ---------------------------------------------------------------
    # the first result (tuple-named states, several start states, no state at all, an alphabet larger than the symbols
    # in use, ...) is the operand of a second operation; its reference is its own extraction
    firsts = [("union", lambda: G.build(ca).union(fb)), ("concatenate", lambda: G.build(ca).concatenate(fb)),
              ("kleene_star", lambda: G.build(ca).kleene_star()), ("get_complement", lambda: G.build(ca).get_complement()),
              ("get_intersection", lambda: G.build(ca).get_intersection(fb)),
              ("get_difference", lambda: G.build(ca).get_difference(fb)), ("reverse", lambda: G.build(ca).reverse()),
              ("minimize", lambda: G.build(ca).minimize()), ("to_deterministic", lambda: G.build(ca).to_deterministic())]
    pick = int(out.shape[:6], 16)
    for k in range(2):
        n1, f1 = firsts[(pick + 4 * k) % len(firsts)]
        r1 = out.call(n1 + "(first)", f1)
        if r1 is FAILED:
            continue
        x = G.extract(r1)
        if len(x.states) > 10:
            continue
        X = M.Sub(x)
        sig1 = {G.key(s.value) for s in r1.symbols}
        al = alpha | x.alphabet
        seconds = [("get_complement", lambda: r1.get_complement(), lambda: M.Not(X, sig1)),
                   ("reverse", lambda: r1.reverse(), lambda: M.Sub(M.reverse(x))),
                   ("kleene_star", lambda: r1.kleene_star(), lambda: M.Sub(M.star(x))),
                   ("get_intersection", lambda: r1.get_intersection(fb), lambda: M.And(X, B)),
                   ("union", lambda: r1.union(fb), lambda: M.Or(X, B)),
                   ("get_difference", lambda: r1.get_difference(fb), lambda: M.Diff(X, B)),
                   ("concatenate", lambda: r1.concatenate(fb), lambda: M.Sub(M.concat(x, rb))),
                   ("rhs.get_intersection", lambda: fb.get_intersection(r1), lambda: M.And(B, X)),
                   ("rhs.get_difference", lambda: fb.get_difference(r1), lambda: M.Diff(B, X))]
        for j in range(2):
            n2, f2, w2 = seconds[(pick // 7 + 5 * j + k) % len(seconds)]
            _cmp(out, n1 + "." + n2, out.call(n1 + "." + n2, f2), w2(), al)
        out.probe("operation_on_a_result")
