"""C02 Equivalence is decided exactly; minimisation is reduced and canonical."""
from gens import fa as G
from models import fa as M
from sim.core import FAILED
from sim.values import key

from props import scaled as SC
ID = "C02"
CASES = {"quick": 6000, "thorough": 40000}
RULE = ("seeded ordered pairs of automata; half made language-equal on purpose by independent means (explicit "
        "sink, unreachable states, renaming, extra alphabet symbol leading only to the sink, reference "
        "determinisation rebuilt) x value-hash schedule x PYTHONHASHSEED; non-trivial = both languages non-empty "
        "and not universal; distinct = (pair structure digest, order signature)")


def _variant(rng, case):
    """a second descriptor with the same language, built by independent means"""
    c = {k: (list(v) if isinstance(v, list) else v) for k, v in case.items()}
    c["trans"] = [list(t) for t in case["trans"]]
    how = rng.pick(["sink", "unreachable", "rename", "extra_symbol_sink", "determinised", "same", "dup_eps"])
    pool = [s for s in (G.INT_STATES if case["valmode"] == "int" else G.PLAIN_STATES) + ["u6", "u7", "u8", "u9"]
            if s not in case["states"]]
    if case["valmode"] == "int":
        pool = [s for s in pool if s.isdigit()] + ["16", "17", "18", "19"]
    if how == "sink" and pool:
        sink = pool[0]
        c["states"] = c["states"] + [sink]
        have = {(p, a) for p, a, q in c["trans"]}
        for s in c["states"]:
            for a in c["symbols"]:
                if (s, a) not in have and (rng.chance(0.7) or s == sink):
                    c["trans"].append([s, a, sink])
    elif how == "unreachable" and pool:
        u = pool[0]
        c["states"] = c["states"] + [u]
        c["trans"].append([u, rng.pick(c["symbols"]), rng.pick(c["states"])])
        if rng.chance(0.5):
            c["finals"] = c["finals"] + [u]
    elif how == "rename" and len(pool) >= len(c["states"]):
        ren = dict(zip(c["states"], rng.sample(pool, len(c["states"]))))
        c["states"] = [ren[s] for s in c["states"]]
        c["trans"] = [[ren[p], a, ren[q]] for p, a, q in c["trans"]]
        c["starts"] = [ren[s] for s in c["starts"]]
        c["finals"] = [ren[s] for s in c["finals"]]
    elif how == "extra_symbol_sink" and pool:
        sink = pool[0]
        c["states"] = c["states"] + [sink]
        extra = "e"
        c["symbols"] = c["symbols"] + [extra]
        for s in c["states"]:
            if rng.chance(0.6):
                c["trans"].append([s, extra, sink])
        if not any(t[1] == extra for t in c["trans"]):
            c["trans"].append([sink, extra, sink])
    elif how == "determinised":
        ref = G.ref_of(case)
        sub = M.Sub(ref)
        ids = {}
        start = sub.start()
        todo = [start]
        ids[start] = 0
        trans = []
        finals = []
        alpha = [s for s in case["symbols"]]
        while todo:
            S = todo.pop()
            if sub.final(S):
                finals.append(ids[S])
            for a in alpha:
                T = sub.step(S, G.ykey(case, a))
                if not T:
                    continue
                if T not in ids:
                    ids[T] = len(ids)
                    todo.append(T)
                trans.append([ids[S], a, ids[T]])
        if len(ids) <= 10:
            names = [str(20 + i) for i in range(10)] if case["valmode"] == "int" else ["d%d" % i for i in range(10)]
            c["kind"] = "dfa" if rng.chance(0.5) else "nfa"
            c["states"] = [names[i] for i in range(len(ids))]
            c["trans"] = [[names[p], a, names[q]] for p, a, q in trans]
            c["starts"] = [names[0]]
            c["finals"] = [names[i] for i in finals]
    elif how == "dup_eps" and case["kind"] == "enfa" and pool:
        # split a start state through an epsilon move
        n = pool[0]
        c["states"] = c["states"] + [n]
        c["trans"] += [[n, None, s] for s in c["starts"]]
        c["starts"] = [n]
    if c.get("hash") is not None:
        h = dict(c["hash"])
        for s in c["states"]:
            h.setdefault("S:" + s, rng.getrandbits(rng.pick([6, 61])))
        for s in c["symbols"]:
            h.setdefault("Y:" + s, rng.getrandbits(rng.pick([6, 61])))
        c["hash"] = h
    _fix_kind(c)
    c["how"] = how
    return c


def _fix_kind(c):
    if any(t[1] is None for t in c["trans"]):
        c["kind"] = "enfa"
    elif c["kind"] == "dfa":
        pa = [(p, a) for p, a, q in c["trans"]]
        if len(set(pa)) != len(pa) or len(c["starts"]) > 1:
            c["kind"] = "nfa"


def gen(rng, tier):
    sc = SC.maybe(rng, ID)
    if sc is not None:
        return sc
    a = G.gen_fa(rng, adversarial=rng.chance(0.1))
    if rng.chance(0.55):
        b = _variant(rng, a)
    else:
        b = G.gen_fa(rng, adversarial=False, allow_int=(a["valmode"] == "int"),
                     name_pool=((G.INT_STATES, "int") if a["valmode"] == "int" else None))
        # keep symbol value kinds comparable across the pair (same hashes for same names)
        b["symmode"] = a["symmode"]
        if a["symmode"] == "V":
            h = dict(b.get("hash") or {})
            for k, v in (a.get("hash") or {}).items():
                h[k] = v
            for s in b["symbols"] + [G.FOREIGN]:
                h.setdefault("Y:" + s, rng.getrandbits(20))
            if b["valmode"] == "V":
                for s in b["states"]:
                    h.setdefault("S:" + s, rng.getrandbits(20))
            b["hash"] = h
        b["how"] = "random"
    if rng.chance(0.5):
        a, b = b, a
    return {"a": a, "b": b}


def shrink(case):
    if SC.is_scaled(case):
        return iter(())
    return _shrink(case)


def _shrink(case):
    for side in ("a", "b"):
        for c in G.shrink_fa(case[side]):
            d = dict(case)
            d[side] = c
            yield d
    yield {"a": case["b"], "b": case["a"]}


def _iso(r1, r2):
    """isomorphism of two deterministic automata by lock-step walk"""
    if len(r1.states) != len(r2.states) or len(r1.trans) != len(r2.trans):
        return False
    if len(r1.starts) != len(r2.starts):
        return False
    if not r1.starts:
        return len(r1.states) == len(r2.states)
    s1, = r1.starts
    s2, = r2.starts
    m = {s1: s2}
    st = [s1]
    d1 = {(p, a): q for p, a, q in r1.trans}
    d2 = {(p, a): q for p, a, q in r2.trans}
    while st:
        p = st.pop()
        if (p in r1.finals) != (m[p] in r2.finals):
            return False
        o1 = {a: q for (pp, a), q in d1.items() if pp == p}
        o2 = {a: q for (pp, a), q in d2.items() if pp == m[p]}
        if set(o1) != set(o2):
            return False
        for a, q in o1.items():
            if q in m:
                if m[q] != o2[a]:
                    return False
            else:
                m[q] = o2[a]
                st.append(q)
    return len(set(m.values())) == len(m)


def run(case, out):
    if SC.is_scaled(case):
        return SC.run(case, out)
    ca, cb = case["a"], case["b"]
    ra, rb = G.ref_of(ca), G.ref_of(cb)
    fa, fb = G.build(ca), G.build(cb)
    out.sig = G.signature(fa) + "||" + G.signature(fb)
    out.shape = G.shape_digest(ca) + G.shape_digest(cb)
    out.fault("value_hash" if (ca.get("hash") or cb.get("hash")) else "hashseed_only")
    alpha = set(G.alphabet_keys(ca)) | set(G.alphabet_keys(cb))
    w = M.distinguish(M.Sub(ra), M.Sub(rb), alpha)
    equal = w is None
    out.probe("pair_equal" if equal else "pair_unequal")
    out.probe("how_" + (cb.get("how") or ca.get("how") or "random"))
    if ra.alphabet != rb.alphabet:
        out.probe("different_alphabets")
    ea, eb = ra.is_empty(), rb.is_empty()
    if ea and eb:
        out.probe("both_empty")
    for r in (ra, rb):
        if r.reachable() - r.coreachable():
            out.probe("explicit_dead_state")
            break
    out.nontrivial = not ea and not eb
    for name, x, y in (("a~b", fa, fb), ("b~a", fb, fa)):
        got = out.call("is_equivalent_to", x.is_equivalent_to, y)
        if got is not FAILED and bool(got) != equal:
            out.fail("is_equivalent_to:verdict", order=name, want=equal, got=got,
                     witness=None if w is None else list(w))
        got = out.call("__eq__", lambda: x == y)
        if got is not FAILED and bool(got) != equal:
            out.fail("eq:verdict", order=name, want=equal, got=got)
    mins = []
    for name, f, r in (("a", fa, ra), ("b", fb, rb)):
        m = out.call("minimize", f.minimize)
        if m is FAILED:
            mins.append(None)
            continue
        rm = G.extract(m)
        mins.append(rm)
        ww = M.distinguish(M.Sub(r), M.Sub(rm), alpha | rm.alphabet)
        if ww is not None:
            out.fail("minimize:language", side=name, word=list(ww))
            continue
        det_ok = len(rm.starts) <= 1 and all(len(v) <= 1 for v in rm._sym.values()) and not rm._eps
        if not det_ok:
            out.fail("minimize:not-deterministic", side=name)
            continue
        if rm.states - rm.reachable():
            out.fail("minimize:unreachable-state", side=name, states=sorted(rm.states - rm.reachable()))
        # pairwise distinguishable: right languages of any two states differ
        sts = sorted(rm.states)
        for i in range(len(sts)):
            for j in range(i + 1, len(sts)):
                n1 = M.Nfa(rm.states, rm.alphabet, rm.trans, {sts[i]}, rm.finals)
                n2 = M.Nfa(rm.states, rm.alphabet, rm.trans, {sts[j]}, rm.finals)
                if M.distinguish(M.Sub(n1), M.Sub(n2), rm.alphabet) is None:
                    out.fail("minimize:indistinguishable-states", side=name, pair=[sts[i], sts[j]])
    if equal and mins[0] is not None and mins[1] is not None:
        if not _iso(mins[0], mins[1]):
            out.fail("minimize:not-isomorphic", sizes=[len(mins[0].states), len(mins[1].states)])
