"""C08 CFG membership answers are exactly derivability from the start symbol."""
from gens import cfg as G
from models import cfg as M
from sim.core import FAILED

from props import scaled as SC
ID = "C08"
CASES = {"quick": 4000, "thorough": 20000}
RULE = ("seeded grammars (<=4 variables, <=3 terminals, <=9 productions, bodies 0-4, profiles random / shared "
        "suffix / unit cycle / nullable chain / clean / A->A / empty language, start symbol possibly without "
        "productions) x value-hash schedule x PYTHONHASHSEED; contains / `in` / generate_epsilon compared with "
        "the least-fixpoint bounded language for every word up to the bound plus words with a foreign symbol; "
        "non-trivial = bounded language has >=2 words and some word is rejected; distinct = (grammar digest, "
        "order signature)")
ASSUMPTIONS = ["variable and terminal symbol sets are disjoint (a grammar has V and Sigma disjoint); in part of the cases one variable and one terminal carry the same value",
               "bounded comparison: all words of length <= 5 (<=2 terminals) or <= 4 (3 terminals)"]


def gen(rng, tier):
    sc = SC.maybe(rng, ID)
    if sc is not None:
        return sc
    if tier == "thorough" and rng.chance(0.25):
        return G.gen_cfg(rng, max_vars=5, max_prods=10, max_body=5)      # larger shapes in the deep tier
    c = G.gen_cfg(rng)
    if c["valmode"] == "str" and rng.chance(0.06):
        # terminals that print alike (1 / "1" / "1 1"), or int-valued variables (the start symbol is 0, a falsy value)
        c["valmode"] = rng.pick(["mixed2", "ivar", "tup"])
    return c


def shrink(case):
    if SC.is_scaled(case):
        return iter(())
    return _shrink(case)


def _shrink(case):
    return G.shrink_cfg(case)


def bound(nterms):
    return 5 if nterms <= 2 else 4


def probes(out, case, ref):
    if any(not b for _, b in ref.prods):
        out.probe("epsilon_production")
    if any(len(b) == 1 and M.isvar(b[0]) for _, b in ref.prods):
        out.probe("unit_production")
    if any(len(b) == 1 and b[0] == h for h, b in ref.prods):
        out.probe("self_unit_A->A")
    if any(len(b) > 2 for _, b in ref.prods):
        out.probe("long_body")
    if ref.variables - ref.generating_vars():
        out.probe("non_generating_variable")
    if ref.variables - ref.reachable():
        out.probe("unreachable_variable")
    if ref.start not in ref.by_head:
        out.probe("start_without_productions")
    out.probe("profile_" + case.get("profile", "?"))


def run(case, out):
    if SC.is_scaled(case):
        return SC.run(case, out)
    ref = G.ref_of(case)
    cfg = G.build(case)
    out.sig = G.signature(cfg)
    out.shape = G.shape_digest(case)
    out.fault("value_hash" if case.get("hash") else "hashseed_only")
    probes(out, case, ref)
    n = bound(len(case["terms"]))
    lang = ref.words_upto(n)
    tks = G.term_keys(case)
    total = sum(len(tks) ** i for i in range(n + 1))
    out.nontrivial = len(lang) >= 2 and len(lang) < total
    got = out.call("generate_epsilon", cfg.generate_epsilon)
    if got is not FAILED and bool(got) != (() in lang):
        out.fail("generate_epsilon:verdict", want=() in lang, got=got)
    # a fresh object for the word sweep, so that generate_epsilon above cannot have warmed it
    cfg = G.build(case)
    for w in M.words_over(tks, n):
        got = out.call("contains", cfg.contains, G.word_values(case, w))
        if got is FAILED:
            break
        if bool(got) != (w in lang):
            out.fail("contains:verdict", word=list(w), want=w in lang, got=got)
            break
    for w in list(M.words_over(tks, 2))[:7]:
        got = out.call("__contains__", lambda: G.word_values(case, w) in cfg)
        if got is not FAILED and bool(got) != (w in lang):
            out.fail("in:verdict", word=list(w), want=w in lang, got=got)
            break
    # words using a symbol unknown to the grammar: False, not an error
    f = G.key(G.val(case, G.FOREIGN))
    fw = [(f,)] + [(t, f) for t in tks[:2]] + [(f, t) for t in tks[:1]] + [(t, f, t) for t in tks[:1]]
    cfg2 = G.build(case)
    for w in fw:
        got = out.call("contains(foreign)", cfg2.contains, G.word_values(case, w))
        if got is not FAILED and got is not False and bool(got):
            out.fail("contains:foreign-accepted", word=list(w))
