"""C19 Objects behave as values: answers never depend on call history or aliasing.

A seeded operation scheduler works on a pool of live objects.  Every pool entry
carries a *recipe* (how it was built: from a descriptor, or as the result of an
operation on other entries, plus the public mutators applied since), from which a
fresh replica can be rebuilt at any time with brand-new component objects.

Invariants checked as the history proceeds:
  I1  after every operation, every live entry that was not the target of a mutator
      has the same observable snapshot (structure + answers on fixed probe words);
  I2  every query / conversion answers like the same call on a fresh replica
      (semantic comparison: language, relation, verdict -- never internal names);
  I3  a generator's total output equals the fresh replica's, whatever was interleaved.
"""
import itertools
from sim.core import FAILED, digest
from sim.values import key
from sim.steps import LineBudget, BudgetExceeded
from gens import fa as GF, cfg as GC, pda as GP, fst as GT, regex as GR
from models import fa as MF, regex as MR, ig as MI

ID = "C19"
CASES = {"quick": 250, "thorough": 3000}
RULE = ("seeded histories of 5-40 public calls on a pool of live automata, regexes, grammars, PDAs, transducers "
        "and indexed grammars (queries, conversions, conversions of conversions, same object as both operands, "
        "generators opened / stepped / closed) with injected faults (mutation of returned objects, mutation of "
        "operands, shared component objects, documented-exception calls) x PYTHONHASHSEED; invariants I1 "
        "(snapshots of untouched entries unchanged), I2 (answer = answer on a fresh replica rebuilt from the "
        "recipe), I3 (generator totals); fault-free and fault-injecting configurations are separate profiles; "
        "non-trivial = >=8 operations executed and >=2 kinds of object in the pool; distinct = history digest")
ASSUMPTIONS = ["'same answer' means same language / relation / verdict / shape, not the same internal state numbers",
               "sequential histories only (no concurrent callers)"]
PROBE = [(), ("a",), ("b",), ("a", "a"), ("a", "b"), ("b", "a"), ("a", "b", "b"), ("a", "a", "b", "b")]
TOK = ["a", "b"]


# ---------------------------------------------------------------------------- generation
def _fa_desc(rng, kind=None):
    c = GF.gen_fa(rng, kind=kind, max_states=4, max_symbols=2, max_trans=6, plain_symbols=True, adversarial=False,
                  allow_int=False, name_pool=(GF.PLAIN_STATES, "str"))
    c["hash"] = None
    c["valmode"] = c["symmode"] = "str"
    c["symbols"] = [s for s in c["symbols"] if s in TOK] or ["a"]
    c["trans"] = [t for t in c["trans"] if t[1] is None or t[1] in TOK]
    c["extra_symbols"] = []
    return GF.fix_kind(c)


def _cfg_desc(rng):
    g = GC.gen_cfg(rng, max_vars=3, max_terms=2, max_prods=5, max_body=3, strings_only=True)
    g["ctor_sets"] = False
    return g


def _pda_desc(rng):
    p = GP.gen_pda(rng, max_states=2, max_stack=2, max_trans=4, reserved=False)
    p["hash"] = None
    return p


def _fst_desc(rng):
    f = GT.gen_fst(rng, max_states=3, max_trans=4, allow_int=False)
    f["hash"] = None
    f["inputs"] = TOK
    f["trans"] = [[p, (None if a is None else {"x": "a", "y": "b"}[a]), q, o] for p, a, q, o in f["trans"]]
    return f


def _ig_desc(rng):
    from props.c17 import gen as g17
    c = g17(rng, "quick")
    while "rules" not in c:          # a scaled shape of C17 (props/scaled.py): draw again
        c = g17(rng, "quick")
    return {"rules": c["rules"][:6], "optim": rng.pick([0, 7, 7, 2])}


def _rx_desc(rng):
    t = GR.gen_tree(rng, TOK, depth=rng.randint(1, 3))
    return {"text": GR.to_text(t, rng), "tree": t}


KIND_GEN = {"fa": _fa_desc, "regex": _rx_desc, "cfg": _cfg_desc, "pda": _pda_desc, "fst": _fst_desc, "ig": _ig_desc}

# op table: name -> (kind of `on`, kind of `other` or None, result kind or None, is_query)
OPS = {
    # finite automata
    "fa.accepts": ("fa", None, None), "fa.is_empty": ("fa", None, None), "fa.is_deterministic": ("fa", None, None),
    "fa.is_acyclic": ("fa", None, None), "fa.words": ("fa", None, None), "fa.equiv": ("fa", "fa", None),
    "fa.to_deterministic": ("fa", None, "fa"), "fa.minimize": ("fa", None, "fa"),
    "fa.remove_epsilon_transitions": ("fa", None, "fa"), "fa.copy": ("fa", None, "fa"),
    "fa.get_complement": ("fa", None, "fa"), "fa.reverse": ("fa", None, "fa"),
    "fa.get_intersection": ("fa", "fa", "fa"), "fa.get_difference": ("fa", "fa", "fa"),
    "fa.union": ("fa", "fa", "fa"), "fa.concatenate": ("fa", "fa", "fa"), "fa.kleene_star": ("fa", None, "fa"),
    "fa.to_regex": ("fa", None, "regex"), "fa.to_fst": ("fa", None, "fst"), "fa.shared": ("fa", None, "fa"),
    "fa.to_dict": ("fa", None, None),
    # regular expressions
    "regex.accepts": ("regex", None, None), "regex.str": ("regex", None, None),
    "regex.to_epsilon_nfa": ("regex", None, "fa"), "regex.to_cfg": ("regex", None, "cfg"),
    "regex.union": ("regex", "regex", "regex"), "regex.concatenate": ("regex", "regex", "regex"),
    "regex.kleene_star": ("regex", None, "regex"),
    # grammars
    "cfg.contains": ("cfg", None, None), "cfg.is_empty": ("cfg", None, None), "cfg.is_finite": ("cfg", None, None),
    "cfg.generate_epsilon": ("cfg", None, None), "cfg.symbols": ("cfg", None, None), "cfg.words": ("cfg", None, None),
    "cfg.to_normal_form": ("cfg", None, "cfg"), "cfg.remove_useless_symbols": ("cfg", None, "cfg"),
    "cfg.remove_epsilon": ("cfg", None, "cfg"), "cfg.eliminate_unit_productions": ("cfg", None, "cfg"),
    "cfg.to_pda": ("cfg", None, "pda"), "cfg.intersection": ("cfg", "fa", "cfg"),
    "cfg.intersection_regex": ("cfg", "regex", "cfg"), "cfg.union": ("cfg", "cfg", "cfg"),
    "cfg.concatenate": ("cfg", "cfg", "cfg"), "cfg.get_closure": ("cfg", None, "cfg"),
    "cfg.reverse": ("cfg", None, "cfg"), "cfg.tree": ("cfg", None, None),
    # pushdown automata
    "pda.to_cfg": ("pda", None, "cfg"), "pda.to_final_state": ("pda", None, "pda"),
    "pda.to_empty_stack": ("pda", None, "pda"), "pda.intersection": ("pda", "fa", "pda"),
    "pda.to_dict": ("pda", None, None),
    # transducers
    "fst.translate": ("fst", None, None), "fst.union": ("fst", "fst", "fst"),
    "fst.concatenate": ("fst", "fst", "fst"), "fst.kleene_star": ("fst", None, "fst"),
    # indexed grammars
    "ig.is_empty": ("ig", None, None), "ig.remove_useless_rules": ("ig", None, "ig"),
    "ig.intersection": ("ig", "fa", "ig"),
    # faults
    "mutate": (None, None, None), "gen.open": (None, None, None), "gen.step": (None, None, None),
    "gen.close": (None, None, None), "error_path": (None, None, None),
}
MUTABLE = ("fa", "pda", "fst", "ig")


def gen(rng, tier):
    faults = rng.chance(0.65)
    kinds = []
    pool = []
    nid = 0
    focus = rng.pick([["fa", "regex"], ["cfg", "fa"], ["pda", "fa", "cfg"], ["fst", "fa"], ["ig", "fa"],
                      ["fa", "regex", "cfg", "pda", "fst", "ig"], ["regex"], ["cfg", "regex", "fa"]])
    for _ in range(rng.randint(2, 4)):
        k = rng.pick(focus)
        pool.append({"id": nid, "kind": k, "desc": KIND_GEN[k](rng)})
        kinds.append((nid, k))
        nid += 1
    ops = []
    gens_open = []
    nops = rng.randint(5, 40)
    scenario = None
    if rng.chance(0.4):
        scenario, nid = _scenario(rng, pool, kinds, nid, faults)
    insert_at = rng.randint(0, 6)
    names = [n for n in OPS if OPS[n][0] is not None]
    for _ in range(nops):
        r = rng.random()
        if faults and r < 0.16:
            cands = [i for i, k in kinds if k in MUTABLE]
            if cands:
                ops.append({"op": "mutate", "on": rng.pick(cands), "arg": [rng.randrange(6) for _ in range(4)],
                            "obs": rng.chance(0.5)})
                continue
        if faults and r < 0.24:
            cands = [i for i, k in kinds if k in ("fa", "cfg", "fst")]
            if cands:
                gid = nid
                nid += 1
                ops.append({"op": "gen.open", "on": rng.pick(cands), "new": gid, "arg": rng.randrange(len(PROBE))})
                gens_open.append(gid)
                continue
        if faults and r < 0.34 and gens_open:
            g = rng.pick(gens_open)
            if rng.chance(0.25):
                ops.append({"op": "gen.close", "on": g})
                gens_open.remove(g)
            else:
                ops.append({"op": "gen.step", "on": g, "arg": rng.randint(1, 3)})
            continue
        if faults and r < 0.38:
            ops.append({"op": "error_path", "on": rng.pick(kinds)[0], "arg": rng.randrange(4)})
            continue
        for _try in range(30):
            name = rng.pick(names)
            k1, k2, kr = OPS[name]
            c1 = [i for i, k in kinds if k == k1]
            if not c1:
                continue
            op = {"op": name, "on": rng.pick(c1), "arg": rng.randrange(len(PROBE))}
            if k2 is not None:
                c2 = [i for i, k in kinds if k == k2]
                if not c2:
                    continue
                op["other"] = op["on"] if (k1 == k2 and rng.chance(0.2)) else rng.pick(c2)
            if kr is not None:
                if len(kinds) >= 9:
                    continue
                op["new"] = nid
                kinds.append((nid, kr))
                nid += 1
            ops.append(op)
            break
    if scenario:
        ops = ops[:insert_at] + scenario + ops[insert_at:]
    return {"pool": pool, "ops": ops, "faults": faults}


def _scenario(rng, pool, kinds, nid, faults):
    """a short history of a kind that is known to stress caches and aliasing (swarm profile); the objects it needs
    are added to the pool"""
    def need(k, desc=None):
        nonlocal nid
        have = [i for i, kk in kinds if kk == k]
        if have and desc is None and rng.chance(0.6):
            return rng.pick(have)
        pool.append({"id": nid, "kind": k, "desc": desc if desc is not None else KIND_GEN[k](rng)})
        kinds.append((nid, k))
        nid += 1
        return nid - 1

    def new(k):
        nonlocal nid
        kinds.append((nid, k))
        nid += 1
        return nid - 1
    mut = lambda on, which, obs=None: {"op": "mutate", "on": on, "obs": rng.chance(0.5) if obs is None else obs,
                                       "arg": [which, rng.randrange(6), rng.randrange(6), rng.randrange(6)]}
    arg = lambda: rng.randrange(len(PROBE))
    t = rng.pick(["reintersect", "regex_family", "eps_edit", "fst_grow", "pda_alias", "ig_edit", "cfg_requery",
                  "double_intersection", "fa_requery", "pda_reintersect", "pda_reconvert"])
    ops = []
    if t == "reintersect":
        g = need("cfg")
        if rng.chance(0.7):
            # a DFA is used as it is by intersection (others are determinised into fresh objects): its State
            # objects survive from one conversion to the next; 4 states + 1 makes the state set re-hash
            d = None
            for _ in range(8):
                d = _fa_desc(rng, "dfa")
                if len(d["states"]) == 4 and d["kind"] == "dfa":
                    break
            a = need("fa", d)
        else:
            a = need("fa")
        ops.append({"op": "cfg.intersection", "on": g, "other": a, "arg": arg(), "new": new("cfg")})
        if faults and rng.chance(0.8):
            ops.append(mut(a, rng.pick([7, 7, 7, 0, 3])))
            b = a
        else:
            b = new("fa")
            ops.append({"op": rng.pick(["fa.copy", "fa.shared"]), "on": a, "arg": 0, "new": b})
        y = new("cfg")
        ops.append({"op": "cfg.intersection", "on": g, "other": b, "arg": arg(), "new": y})
        ops.append({"op": "cfg.words", "on": y, "arg": 0})
    elif t == "regex_family":
        r1, r2 = need("regex"), need("regex")
        u = new("regex")
        ops.append({"op": rng.pick(["regex.union", "regex.concatenate"]), "on": r1, "other": r2, "arg": 0, "new": u})
        ops.append({"op": "regex.accepts", "on": u, "arg": arg()})
        ops.append({"op": "regex.accepts", "on": r1, "arg": arg()})
        f = new("fa")
        ops.append({"op": "regex.to_epsilon_nfa", "on": rng.pick([u, r1]), "arg": 0, "new": f})
        if faults:
            ops.append(mut(f, rng.pick([1, 2, 0])))
        ops.append({"op": "regex.accepts", "on": u, "arg": arg()})
        ops.append({"op": "regex.accepts", "on": r2, "arg": arg()})
    elif t == "eps_edit":
        a = need("fa", _fa_desc(rng, "enfa"))
        ops.append({"op": "fa.accepts", "on": a, "arg": arg()})
        if faults:
            ops.append(mut(a, rng.pick([5, 6, 5])))
        ops.append({"op": "fa.accepts", "on": a, "arg": arg()})
        ops.append({"op": rng.pick(["fa.to_deterministic", "fa.remove_epsilon_transitions", "fa.minimize"]), "on": a,
                    "arg": 0, "new": new("fa")})
        ops.append({"op": "fa.words", "on": a, "arg": 0})
        ops.append({"op": "fa.is_deterministic", "on": a, "arg": 0})
    elif t == "fst_grow":
        if rng.chance(0.5):
            # a transducer that has no final state yet: everything is dead until one is marked later
            d = _fst_desc(rng)
            d["finals"] = []
            f = need("fst", d)
        else:
            f = need("fst")
        ops.append({"op": "fst.translate", "on": f, "arg": arg()})
        if faults and rng.chance(0.5):
            ops.append(mut(f, 1))
            if rng.chance(0.3):
                ops.append(mut(f, 1))
        elif faults:
            ops.append(mut(f, 2))
            ops.append(mut(f, 3))
        for _ in range(3):
            ops.append({"op": "fst.translate", "on": f, "arg": arg()})
    elif t == "pda_alias":
        p_ = need("pda")
        q = new("pda")
        ops.append({"op": rng.pick(["pda.to_final_state", "pda.to_empty_stack"]), "on": p_, "arg": 0, "new": q})
        if faults:
            ops.append(mut(q, 0))
            ops.append(mut(q, 0))
        g = new("cfg")
        ops.append({"op": "pda.to_cfg", "on": p_, "arg": 0, "new": g})
        ops.append({"op": "cfg.words", "on": g, "arg": 0})
    elif t == "pda_reintersect":
        p_, a = need("pda"), need("fa")
        ops.append({"op": "pda.intersection", "on": p_, "other": a, "arg": 0, "new": new("pda")})
        if faults:
            for _ in range(rng.randint(1, 2)):
                ops.append(mut(p_, rng.pick([2, 2, 0]), obs=False))
        ops.append({"op": "pda.intersection", "on": p_, "other": a, "arg": 0, "new": new("pda")})
    elif t == "pda_reconvert":
        p_ = need("pda")
        ops.append({"op": "pda.to_cfg", "on": p_, "arg": 0, "new": new("cfg")})
        if faults:
            ops.append(mut(p_, rng.pick([3, 4, 2, 0]), obs=False))
        g2 = new("cfg")
        ops.append({"op": "pda.to_cfg", "on": p_, "arg": 0, "new": g2})
        ops.append({"op": "cfg.words", "on": g2, "arg": 0})
        q = new("pda")
        ops.append({"op": rng.pick(["pda.to_final_state", "pda.to_empty_stack"]), "on": p_, "arg": 0, "new": q})
        ops.append({"op": rng.pick(["pda.to_final_state", "pda.to_empty_stack"]), "on": q, "arg": 0, "new": new("pda")})
    elif t == "ig_edit":
        i = need("ig")
        ops.append({"op": "ig.is_empty", "on": i, "arg": 0})
        if faults and rng.chance(0.5):
            # two edits in a row, no query in between
            for w in rng.pick([[0, 1], [1, 0], [0, 1, 1], [0, 0, 1]]):
                ops.append(mut(i, w, obs=False))
            ops.append({"op": "ig.is_empty", "on": i, "arg": 0})
        else:
            if faults:
                ops.append(mut(i, 0))
            ops.append({"op": "ig.is_empty", "on": i, "arg": 0})
            if faults:
                ops.append(mut(i, 1))
            ops.append({"op": "ig.is_empty", "on": i, "arg": 0})
    elif t == "cfg_requery":
        g = need("cfg")
        for name in rng.sample(["cfg.contains", "cfg.generate_epsilon", "cfg.symbols", "cfg.words", "cfg.is_empty",
                                "cfg.is_finite", "cfg.contains", "cfg.generate_epsilon", "cfg.tree"], 6):
            ops.append({"op": name, "on": g, "arg": rng.pick([0, 0, arg()])})
    elif t == "double_intersection":
        g, r, a = need("cfg"), need("regex"), need("fa")
        ops.append({"op": "cfg.intersection_regex", "on": g, "other": r, "arg": 0, "new": new("cfg")})
        y = new("cfg")
        ops.append({"op": "cfg.intersection", "on": g, "other": a, "arg": 0, "new": y})
        ops.append({"op": "cfg.words", "on": y, "arg": 0})
        ops.append({"op": "cfg.words", "on": g, "arg": 0})
    else:
        a = need("fa")
        for name in rng.sample(["fa.accepts", "fa.words", "fa.is_deterministic", "fa.is_acyclic", "fa.is_empty",
                                "fa.accepts", "fa.words"], 5):
            ops.append({"op": name, "on": a, "arg": arg()})
        if faults:
            ops.insert(2, mut(a, rng.pick([6, 0, 5])))
    return ops, nid


def shrink(case):
    ops = case["ops"]
    # drop a suffix first, then single operations, then pool entries
    for cut in (len(ops) // 2, len(ops) - 1):
        if 0 < cut < len(ops):
            yield dict(case, ops=ops[:cut])
    for i in range(len(ops) - 1, -1, -1):
        yield dict(case, ops=ops[:i] + ops[i + 1:])
    used = {o.get("on") for o in ops} | {o.get("other") for o in ops}
    for e in case["pool"]:
        if e["id"] not in used:
            yield dict(case, pool=[x for x in case["pool"] if x["id"] != e["id"]])
    for i, e in enumerate(case["pool"]):
        shr = {"fa": GF.shrink_fa, "cfg": GC.shrink_cfg, "pda": GP.shrink_pda, "fst": GT.shrink_fst}.get(e["kind"])
        if shr is None:
            continue
        for d in shr(e["desc"]):
            if e["kind"] == "fa" and (d["valmode"] != "str" or d["symmode"] != "str"):
                continue
            if e["kind"] == "cfg" and d["valmode"] != "str":
                continue
            yield dict(case, pool=case["pool"][:i] + [dict(e, desc=d)] + case["pool"][i + 1:])


# ---------------------------------------------------------------------------- building
def _tt(t):
    return tuple(_tt(x) if isinstance(x, (list, tuple)) else x for x in t)


def build_desc(kind, d):
    if kind == "fa":
        return GF.build(d)
    if kind == "cfg":
        return GC.build(d)
    if kind == "pda":
        return GP.build(d)
    if kind == "fst":
        return GT.build(d)
    if kind == "regex":
        from pyformlang.regular_expression import Regex
        return Regex(d["text"])
    if kind == "ig":
        from pyformlang.indexed_grammar import IndexedGrammar, Rules
        from props.c17 import mk
        import random as _r
        _r.seed(7)
        return IndexedGrammar(Rules([mk(r) for r in d["rules"]], d["optim"]))
    raise ValueError(kind)


def _skey(v):
    return (type(v).__name__, v) if isinstance(v, (int, float)) and not isinstance(v, bool) else ("~", str(v))


def _sorted_vals(vals):
    return sorted(vals, key=_skey)


def apply_mutator(kind, obj, arg):
    """one public mutator, chosen by the integers in `arg`; deterministic given the object's structure.
    Returns a description, or None if not applicable.  Documented exceptions leave the object unchanged."""
    a0, a1, a2, a3 = arg
    if kind == "fa":
        from pyformlang.finite_automaton import DeterministicFiniteAutomaton, Epsilon
        from pyformlang.finite_automaton.transition_function import DuplicateTransitionError
        sts = _sorted_vals([s.value for s in obj.states]) or ["m0"]
        p, q = sts[a1 % len(sts)], sts[a2 % len(sts)]
        which = a0 % 8
        from pyformlang.finite_automaton import EpsilonNFA
        if which == 5 and type(obj) is not EpsilonNFA:
            which = 0
        try:
            if which == 0:
                obj.add_transition(p, TOK[a3 % 2], q)
                return "add_transition"
            if which == 1:
                obj.add_final_state(p)
                return "add_final_state"
            if which == 2:
                obj.remove_final_state(p)
                return "remove_final_state"
            if which == 3:
                obj.add_start_state(q)
                return "add_start_state"
            if which == 5:
                obj.add_transition(p, "epsilon", q)     # the string spelling of an epsilon move
                return "add_transition(epsilon as string)"
            if which == 6:
                edges = sorted(((_skey(x.value), "" if isinstance(y, Epsilon) else str(y.value), _skey(z.value)), x, y, z)
                               for x, y, z in obj)
                if not edges:
                    return None
                _, x, y, z = edges[a1 % len(edges)]
                obj.remove_transition(x.value, "epsilon" if isinstance(y, Epsilon) else y.value, z.value)
                return "remove_transition"
            obj.add_transition(q, TOK[a3 % 2], "fresh%d" % (a3 % 2))
            return "add_transition(new state)"
        except DuplicateTransitionError:
            return "DuplicateTransitionError"
    if kind == "pda":
        sts = _sorted_vals([s.value for s in obj.states]) or ["m0"]
        sks = _sorted_vals([s.value for s in obj.stack_symbols]) or ["Z"]
        if a0 % 5 == 3:
            obj.set_start_state(sts[a1 % len(sts)])
            return "set_start_state"
        if a0 % 5 == 4:
            obj.set_start_stack_symbol(sks[a2 % len(sks)])
            return "set_start_stack_symbol"
        if a0 % 5 == 0:
            obj.add_transition(sts[a1 % len(sts)], TOK[a3 % 2], sks[a2 % len(sks)], sts[a2 % len(sts)],
                               [sks[a1 % len(sks)]] * (a3 % 3))
            return "add_transition"
        if a0 % 5 == 2:
            # a further alternative under a (state, input, stack symbol) key that already has a transition
            from pyformlang.pda import Epsilon as PEps
            keys = sorted(((_skey(k[0].value), "" if isinstance(k[1], PEps) else str(k[1].value), _skey(k[2].value)), k)
                          for k in obj.to_dict())
            if not keys:
                return None
            _, k = keys[a1 % len(keys)]
            obj.add_transition(k[0].value, "epsilon" if isinstance(k[1], PEps) else k[1].value, k[2].value,
                               sts[a2 % len(sts)], [sks[a3 % len(sks)]] * (1 + a3 % 2))
            return "add_transition(existing key)"
        obj.add_final_state(sts[a1 % len(sts)])
        return "add_final_state"
    if kind == "fst":
        sts = _sorted_vals(list(obj.states)) or ["m0"]
        which = a0 % 4
        if which == 0:
            obj.add_transition(sts[a1 % len(sts)], TOK[a3 % 2], sts[a2 % len(sts)], ["u"] * (a3 % 2))
            return "add_transition"
        if which == 1:
            obj.add_final_state(sts[a1 % len(sts)])
            return "add_final_state"
        if which == 2:
            # first half of a new path through a fresh state (start side first)
            obj.add_transition(sts[a1 % len(sts)], TOK[a3 % 2], "zfresh", ["u"])
            return "add_transition(to fresh state)"
        src = "zfresh" if "zfresh" in obj.states else sts[a1 % len(sts)]
        fin = _sorted_vals(list(obj.final_states)) or sts
        obj.add_transition(src, TOK[a3 % 2], fin[a2 % len(fin)], ["v"])
        return "add_transition(from fresh state to a final state)"
    if kind == "ig":
        prods = [r for r in obj.rules.rules if r.is_production()]
        if a0 % 2 == 0 and prods:
            r = prods[a1 % len(prods)]
            obj.rules.remove_production(r.left_term, r.right_term, r.production)
            return "rules.remove_production"
        nts = sorted(obj.non_terminals)
        obj.rules.add_production(nts[a1 % len(nts)], nts[a2 % len(nts)], ["f", "g"][a3 % 2])
        return "rules.add_production"
    return None


# ---------------------------------------------------------------------------- observation
class _Budgeted:
    pass


BUDGETED = _Budgeted()


def _bounded(out, fn, budget=150000):
    b = LineBudget(budget)
    try:
        with b:
            v = fn()
        out.lines += b.used
        return v
    except BudgetExceeded:
        out.lines += b.used
        out.probe("line_budget_exhausted")
        return BUDGETED


def snapshot(kind, obj):
    """observable state of a live object: structure + answers on the fixed probe words"""
    if kind == "fa":
        r = GF.extract(obj)
        return (type(obj).__name__, r.digest_struct(), tuple(bool(obj.accepts(list(w))) for w in PROBE))
    if kind == "regex":
        return (str(obj), str(GR.from_lib(obj)), tuple(bool(obj.accepts(list(w))) for w in PROBE))
    if kind == "cfg":
        r = GC.extract(obj)
        if len(r.prods) > 40:
            # a large product grammar: structure only (membership on it costs seconds)
            return (r.digest(), tuple(sorted(r.variables)), tuple(sorted(r.terminals)))
        return (r.digest(), tuple(sorted(r.variables)), tuple(sorted(r.terminals)),
                tuple(bool(obj.contains(list(w))) for w in PROBE[:6]), bool(obj.is_empty()))
    if kind == "pda":
        r = GP.extract(obj)
        return (tuple(r.states), tuple(r.stack), tuple(r.trans), r.q0, r.z0, tuple(sorted(r.finals)))
    if kind == "fst":
        r = GT.extract(obj)
        return (tuple(sorted(map(str, r.states))), tuple(r.trans), tuple(sorted(map(str, r.starts))),
                tuple(sorted(map(str, r.finals))))
    if kind == "ig":
        rules = sorted(repr(x) for x in obj.rules.rules)
        cons = sorted(repr(x) for v in obj.rules.consumption_rules.values() for x in v)
        return (tuple(rules), tuple(cons), obj.start_variable)
    raise ValueError(kind)


def observe(kind, obj, out):
    """answers of the *library* on the fixed probe set (used right after a mutation: the edited live object must
    answer like a fresh object that received the same edits)"""
    if kind == "fa":
        return (tuple(bool(obj.accepts(list(w))) for w in PROBE), bool(obj.is_empty()), bool(obj.is_deterministic()),
                bool(obj.is_acyclic()))
    if kind == "fst":
        res = []
        for w in PROBE:
            v = _bounded(out, lambda: sorted(set(tuple(o) for o in obj.translate(list(w)))), budget=60000)
            res.append("budget" if v is BUDGETED else tuple(v))
        return tuple(res)
    if kind == "ig":
        v = _bounded(out, obj.is_empty)
        return "budget" if v is BUDGETED else bool(v)
    return None


def _take(g, out):
    """the next value of an open generator; in half of the generators the consumer then edits the yielded list (a value
    handed out must not be one the enumeration still works on)"""
    x = next(g["it"])
    v = g["conv"](x)
    if g.get("edit") and isinstance(x, list):
        x.clear()
        out.fault("yielded_value_edited")
    return v


def _budget_only_difference(a, b):
    """two observations differ only where at least one of them is the "budget" marker"""
    if a == "budget" or b == "budget":
        return True
    if isinstance(a, tuple) and isinstance(b, tuple) and len(a) == len(b):
        return all(x == y or x == "budget" or y == "budget" for x, y in zip(a, b))
    return False


def semantic(kind, obj, out):
    """history-independent meaning of an object (for I2 on conversion results)"""
    if kind == "fa":
        return ("fa", type(obj).__name__, GF.extract(obj))
    if kind == "regex":
        return ("regex", MR.to_nfa(GR.from_lib(obj)))
    if kind == "cfg":
        r = GC.extract(obj)
        return ("cfg", frozenset(r.words_upto(3)), r.is_empty())
    if kind == "pda":
        r = GP.extract(obj)
        return ("pda", frozenset(r.lang_empty_stack(3)), frozenset(r.lang_final_state(3)))
    if kind == "fst":
        r = GT.extract(obj)
        if r.writing_eps_cycle():
            return ("fst", "writing-eps-cycle")
        from models.fst import TooLarge
        try:
            return ("fst", tuple(frozenset(r.outputs(w)) for w in itertools.chain([()], [(a,) for a in TOK],
                                                                               itertools.product(TOK, repeat=2))))
        except TooLarge:
            return ("fst", "relation-too-large")
    if kind == "ig":
        return ("ig", _bounded(out, obj.is_empty))
    raise ValueError(kind)


def same_meaning(a, b):
    if a[0] != b[0]:
        return False
    if a[0] == "fa":
        if MF.equivalent(a[2], b[2]) is not None:
            return False
        det = lambda n: "Deterministic" in n
        return det(a[1]) == det(b[1])
    if a[0] == "regex":
        return MF.equivalent(a[1], b[1]) is None
    return a == b


# ---------------------------------------------------------------------------- the run
class Entry:
    __slots__ = ("id", "kind", "obj", "recipe", "muts", "snap", "stable", "offset_iso")


def _do(name, obj, other, arg):
    """execute one named operation on real objects; returns the raw result"""
    w = list(PROBE[arg % len(PROBE)])
    if name == "fa.accepts":
        return bool(obj.accepts(w))
    if name == "fa.is_empty":
        return bool(obj.is_empty())
    if name == "fa.is_deterministic":
        return bool(obj.is_deterministic())
    if name == "fa.is_acyclic":
        return bool(obj.is_acyclic())
    if name == "fa.words":
        return sorted(tuple(key(s.value) for s in x) for x in obj.get_accepted_words(2))
    if name == "fa.equiv":
        return bool(obj.is_equivalent_to(other))
    if name == "fa.to_dict":
        d = obj.to_dict()
        d.clear()                       # alias fault: the returned dictionary is the caller's
        return True                     # (its size is internal structure for derived automata: not compared)
    if name == "fa.shared":
        from pyformlang.finite_automaton import EpsilonNFA
        e = EpsilonNFA()
        for p, a, q in obj:
            e.add_transition(p, a, q)   # the very same State / Symbol objects
        for s in obj.start_states:
            e.add_start_state(s)
        for s in obj.final_states:
            e.add_final_state(s)
        return e
    if name == "fa.to_deterministic":
        r = obj.to_deterministic()
        if r is obj and CF.get("dfa_to_deterministic_copies"):
            r = obj.copy()       # counterfactual normalisation for known finding KF-C19-1
        return r
    if name.startswith("fa."):
        m = getattr(obj, name[3:])
        return m(other) if other is not None else m()
    if name == "regex.accepts":
        return bool(obj.accepts(w))
    if name == "regex.str":
        return str(obj)
    if name.startswith("regex."):
        m = getattr(obj, name[6:])
        return m(other) if other is not None else m()
    if name == "cfg.contains":
        return bool(obj.contains(w))
    if name == "cfg.is_empty":
        return bool(obj.is_empty())
    if name == "cfg.is_finite":
        return bool(obj.is_finite())
    if name == "cfg.generate_epsilon":
        return bool(obj.generate_epsilon())
    if name == "cfg.symbols":
        # variable names of derived grammars are internal numbering: terminals by name, variables by count
        def view(xs):
            xs = [GC.lib_sym(x) for x in xs]
            return (sorted(x for x in xs if x[0] == "T"), sum(1 for x in xs if x[0] == "V"))
        return (view(obj.get_generating_symbols()), view(obj.get_nullable_symbols()),
                view(obj.get_reachable_symbols()))
    if name == "cfg.words":
        return sorted(tuple(GC.lib_sym(x) for x in wd) for wd in obj.get_words(3))
    if name == "cfg.tree":
        from pyformlang.cfg.cyk_table import DerivationDoesNotExist
        if not w:
            return None
        try:
            t = obj.get_cnf_parse_tree(w)
            return ("tree", [GC.lib_sym(x)[1] for x in _frontier(t)])
        except DerivationDoesNotExist:
            return "no-derivation"
    if name in ("cfg.intersection", "cfg.intersection_regex"):
        return obj.intersection(other)
    if name.startswith("cfg."):
        m = getattr(obj, name[4:])
        return m(other) if other is not None else m()
    if name == "pda.to_dict":
        d = obj.to_dict()
        d.clear()                       # alias fault
        return True
    if name.startswith("pda."):
        m = getattr(obj, name[4:])
        return m(other) if other is not None else m()
    if name == "fst.translate":
        return sorted(set(tuple(o) for o in obj.translate(w)))
    if name.startswith("fst."):
        m = getattr(obj, name[4:])
        return m(other) if other is not None else m()
    if name == "ig.is_empty":
        return bool(obj.is_empty())
    if name.startswith("ig."):
        m = getattr(obj, name[3:])
        return m(other) if other is not None else m()
    raise ValueError(name)


def _int_named(kind, obj):
    """mutation targets are chosen by rank among the sorted state values; that is meaningful across the live
    object and its replica when the values are plain ints (a constant offset keeps the ranks)"""
    if kind == "fa":
        return all(isinstance(x.value, int) for x in obj.states)
    if kind == "fst":
        return all(isinstance(x, int) for x in obj.states)
    if kind == "pda":
        return False
    return True


def _frontier(t):
    if not t.sons:
        return [t.value]
    out = []
    for s in t.sons:
        out += _frontier(s)
    return out


CF = {}


def _kf_dfa_to_deterministic_returns_self(case, clause):
    """KF-C19-1: DeterministicFiniteAutomaton.to_deterministic() returns self.  Attributed only if the very
    same history no longer fails once that one call hands out a copy instead (counterfactual)."""
    from sim.core import run_case
    import sys
    if case.get("cf") or not any(o["op"] == "fa.to_deterministic" for o in case["ops"]):
        return False
    o = run_case(sys.modules[__name__], dict(case, cf={"dfa_to_deterministic_copies": True}))
    return clause not in o.clauses()


KNOWN = {"dfa_to_deterministic_returns_self": _kf_dfa_to_deterministic_returns_self}


def run(case, out):
    CF.clear()
    CF.update(case.get("cf") or {})
    entries = {}
    order = []
    gens = {}

    def fresh(eid, nm=None):
        """rebuild entry `eid` from its recipe with brand-new objects; `nm` = how many of its recorded
        mutators to replay (None = all).  A derived entry remembers how many mutators its sources had
        received when it was made, so later mutations of a source do not leak into the replica."""
        e = entries[eid]
        r = e.recipe
        if r[0] == "build":
            o = build_desc(e.kind, r[1])
        else:
            _, name, on, other, arg, n_on, n_other = r
            a = fresh(on, n_on)
            b = None if other is None else (a if other == on else fresh(other, n_other))
            o = _do(name, a, b, arg)
        for m in (e.muts if nm is None else e.muts[:nm]):
            apply_mutator(e.kind, o, m)
        return o

    for pe in case["pool"]:
        e = Entry()
        e.id, e.kind = pe["id"], pe["kind"]
        e.recipe = ("build", pe["desc"])
        e.muts = []
        e.obj = out.call("build." + e.kind, build_desc, e.kind, pe["desc"])
        if e.obj is FAILED:
            return
        e.snap = None
        e.stable = True
        e.offset_iso = True      # for a regex: its tree is fixed by the descriptor
        entries[e.id] = e
        order.append(e.id)
    out.shape = digest(case)
    out.sig = str(len(case["ops"]))
    out.fault("fault_injecting_profile" if case.get("faults") else "fault_free_profile")

    def resnap(skip=()):
        """I1: every entry that was not the target of a mutator keeps its snapshot"""
        for eid in order:
            e = entries[eid]
            try:
                s = _bounded(out, lambda: snapshot(e.kind, e.obj), budget=3000000)
            except Exception as ex:
                s = ("#exception#", type(ex).__name__)
            if s is BUDGETED:
                out.probe("snapshot_budget_exhausted_not_compared")
                continue
            if eid in skip or e.snap is None:
                e.snap = s
                continue
            if s != e.snap:
                why = ""
                if isinstance(s, tuple) and isinstance(e.snap, tuple):
                    for i, (x, y) in enumerate(zip(e.snap, s)):
                        if x != y:
                            why = "component %d: %s -> %s" % (i, str(x)[:160], str(y)[:160])
                            break
                return eid, e.snap, s, why
        return None

    resnap()
    executed = 0
    for step, op in enumerate(case["ops"]):
        name = op["op"]
        on = op.get("on")
        if name.startswith("gen.") and name != "gen.open":
            g = gens.get(on)
            if g is None:
                continue
            if name == "gen.step":
                for _ in range(op["arg"]):
                    try:
                        g["got"].append(_bounded(out, lambda: _take(g, out)))
                    except StopIteration:
                        g["done"] = True
                        break
                    except Exception as ex:
                        out.fail("I3:generator-raised:" + type(ex).__name__, step=step, op=g["name"])
                        g["done"] = True
                        break
                out.fault("gen_interleave")
            else:
                if not g["done"]:
                    try:
                        g["it"].close()
                    except Exception as ex:
                        out.fail("I3:close-raised:" + type(ex).__name__, step=step)
                    out.fault("gen_abandon")
                del gens[on]
                continue
            if g["done"]:
                # I3: the total equals the fresh replica's (recipe as of the time the generator was opened)
                if sorted(g["got"]) != g["want"]:
                    out.fail("I3:generator-total-differs", step=step, op=g["name"])
                del gens[on]
            bad = resnap()
            if bad:
                out.fail("I1:operand-changed", step=step, op=name, entry=bad[0], kind=entries[bad[0]].kind)
                return
            executed += 1
            continue
        if on not in entries:
            continue
        e = entries[on]
        if name == "mutate":
            if any(g["src"] == on and not g["done"] for g in gens.values()):
                continue        # mutating a container while a generator walks it is outside every contract
            if not e.stable and not (e.offset_iso and _int_named(e.kind, e.obj)):
                out.probe("mutation_skipped_unstable_names")
                continue
            what = out.call("mutate." + e.kind, apply_mutator, e.kind, e.obj, op["arg"])
            if what is FAILED or what is None:
                continue
            if what != "DuplicateTransitionError":
                e.muts.append(op["arg"])
            is_alias = e.recipe[0] != "build"
            out.fault("alias_mutation" if is_alias else "operand_mutation")
            # I2 right after the edit: the live object answers like a fresh object with the same edits.  Only after
            # some edits (op["obs"]): querying after *every* edit would hide defects that need two edits in a row
            try:
                ol = observe(e.kind, e.obj, out) if op.get("obs", True) else None
                of = observe(e.kind, fresh(on), out) if ol is not None else None
            except Exception:
                ol = of = None
            if ol != of and _budget_only_difference(ol, of):
                # one side ran out of its line budget (a product grammar's emptiness can be slow on either side):
                # termination is not what C19 states, so this is inconclusive, not a verdict
                out.probe("edited_object_observation_budget_exhausted_inconclusive")
            elif ol != of:
                out.fail("I2:edited-object-answers-differ-from-fresh-replica", step=step, kind=e.kind, mutator=what,
                         live=str(ol)[:150], fresh=str(of)[:150])
                return
            bad = resnap(skip=(on,))
            if bad:
                out.fail("I1:mutation-leaked", step=step, mutated=on, mutated_kind=e.kind, mutator=what, why=bad[3],
                         changed=bad[0], changed_kind=entries[bad[0]].kind,
                         relation=("source" if e.recipe[0] == "op" and bad[0] in (e.recipe[2], e.recipe[3])
                                   else "other"))
                return
            executed += 1
            continue
        if name == "gen.open":
            if e.kind == "fa":
                mk = lambda o: o.get_accepted_words(3)
                conv = lambda x: tuple(key(s.value) for s in x)
            elif e.kind == "cfg":
                mk = lambda o: o.get_words(3)
                conv = lambda x: tuple(GC.lib_sym(s) for s in x)
            elif e.kind == "fst":
                w = list(PROBE[op["arg"] % len(PROBE)])
                mk = lambda o: o.translate(w)
                conv = lambda x: tuple(x)
            else:
                continue
            try:
                want = _bounded(out, lambda: sorted(conv(x) for x in mk(fresh(on))))
            except Exception:
                continue
            if want is BUDGETED:
                continue
            it = out.call("gen.open", mk, e.obj)
            if it is FAILED:
                continue
            gens[op["new"]] = {"it": it, "got": [], "want": want, "conv": conv, "done": False, "src": on,
                               "name": e.kind, "edit": op["new"] % 2 == 0}
            continue
        if name == "error_path":
            out.ops += 1
            try:
                if e.kind == "cfg":
                    e.obj.intersection("not an automaton")
                elif e.kind == "pda":
                    e.obj.intersection(3)
                elif e.kind == "ig":
                    e.obj.intersection(None)
                elif e.kind == "regex":
                    from pyformlang.regular_expression import Regex
                    Regex("a | ( b")
                elif e.kind == "fa":
                    from pyformlang.finite_automaton import NondeterministicFiniteAutomaton, EpsilonNFA
                    if type(e.obj) is not EpsilonNFA:
                        sts = _sorted_vals([s.value for s in e.obj.states]) or ["m0"]
                        from pyformlang.finite_automaton import Epsilon
                        e.obj.add_transition(sts[0], Epsilon(), sts[-1])
                    else:
                        continue
                else:
                    continue
                continue
            except Exception:
                out.fault("error_path")
            bad = resnap()
            if bad:
                out.fail("I1:changed-by-failed-call", step=step, entry=bad[0], kind=entries[bad[0]].kind, why=bad[3])
                return
            executed += 1
            continue
        # ---- ordinary query / conversion ------------------------------------------
        k1, k2, kr = OPS[name]
        if e.kind != k1:
            continue
        if name == "regex.str" and e.recipe[0] != "build":
            continue        # the text of a derived regex follows set order and state numbering: internal
        other = None
        if k2 is not None:
            oid = op.get("other")
            if oid not in entries or entries[oid].kind != k2:
                continue
            other = entries[oid].obj
            if oid == on:
                out.fault("same_object_twice")
        # expected answer on fresh replicas first (so that the live call cannot influence it)
        try:
            ra = fresh(on)
            rb = None if k2 is None else (ra if op.get("other") == on else fresh(op["other"]))
            want = _bounded(out, lambda: _do(name, ra, rb, op.get("arg", 0)))
            want_exc = None
        except Exception as ex:
            want, want_exc = None, type(ex).__name__
        if want is BUDGETED:
            continue
        try:
            # the live call gets ten times the budget within which the fresh replica answered
            got = _bounded(out, lambda: _do(name, e.obj, other, op.get("arg", 0)), budget=1500000)
            got_exc = None
        except Exception as ex:
            got, got_exc = None, type(ex).__name__
        out.ops += 1
        executed += 1
        if name == "fa.shared":
            out.fault("shared_parts")
        if got is BUDGETED:
            # ten times slower than on a fresh replica: a performance effect of the history (e.g. a warmed marking
            # table that no longer exits early), not an answer -- inconclusive; a real hang is caught by the
            # whole-case confirmation budget in sim.core
            out.probe("live_call_much_slower_than_fresh_inconclusive")
            continue
        if want_exc or got_exc:
            if want_exc != got_exc:
                out.fail("I2:exception-differs-from-fresh-replica", step=step, op=name, live=got_exc, fresh=want_exc)
                return
            # the same failure on a fresh object: not a history effect (the per-operation checks own it)
            bad = resnap()
            if bad:
                out.fail("I1:changed-by-failed-call", step=step, entry=bad[0], kind=entries[bad[0]].kind, op=name)
                return
            continue
        if kr is None:
            if got != want:
                out.fail("I2:answer-differs-from-fresh-replica", step=step, op=name, live=str(got)[:120],
                         fresh=str(want)[:120])
                return
        else:
            def sem(x):
                try:
                    return semantic(kr, x, out), None
                except Exception as ex:
                    return None, type(ex).__name__
            sg, eg = sem(got)
            sw, ew = sem(want)
            if eg or ew:
                if eg != ew:
                    out.fail("I2:result-not-observable:" + str(eg or ew), step=step, op=name, live=eg, fresh=ew)
                    return
                # the same malformed result on a fresh replica (e.g. a conversion of an empty PDA): not a history effect
                out.probe("result_not_observable_on_both_sides")
                continue
            if not same_meaning(sg, sw):
                out.fail("I2:result-differs-from-fresh-replica", step=step, op=name)
                return
            ne = Entry()
            ne.id, ne.kind, ne.obj = op["new"], kr, got
            ne.recipe = ("op", name, on, op.get("other"), op.get("arg", 0), len(e.muts),
                         len(entries[op["other"]].muts) if k2 is not None else 0)
            ne.muts = []
            ne.snap = None
            # names of states derived from a Regex object carry its running counter, which legitimately
            # differs between the live object and a fresh replica
            ne.stable = (e.stable and (k2 is None or entries[op["other"]].stable)
                         and e.kind != "regex" and (k2 != "regex"))
            # offset_iso: the live object and its replica have the same structure and int names that differ by a
            # constant (Thompson construction of a regex whose tree is fixed); kept by operations that keep names
            if name == "regex.to_epsilon_nfa":
                ne.offset_iso = e.offset_iso
            elif name in ("regex.union", "regex.concatenate", "regex.kleene_star"):
                ne.offset_iso = e.offset_iso and (k2 is None or entries[op["other"]].offset_iso)
            elif name in ("fa.reverse", "fa.copy", "fa.shared"):
                ne.offset_iso = e.offset_iso
            else:
                ne.offset_iso = ne.stable
            if any(got is entries[x].obj for x in order):
                out.probe("conversion_returned_an_existing_object")
            entries[ne.id] = ne
            order.append(ne.id)
        bad = resnap()
        if bad:
            out.fail("I1:operand-changed", step=step, op=name, entry=bad[0], kind=entries[bad[0]].kind,
                     is_operand=bad[0] in (on, op.get("other")), why=bad[3])
            return
    out.probe("history_len_%d0s" % (executed // 10))
    out.nontrivial = executed >= 8 and len({entries[x].kind for x in order}) >= 2
