"""C17 Indexed-grammar emptiness is exact and independent of rule order."""
import random as _random
from models import ig as M
from gens import fa as GF
from sim.core import FAILED
from sim.steps import LineBudget, BudgetExceeded

from props import scaled as SC
ID = "C17"
CASES = {"quick": 450, "thorough": 4500}
RULE = ("seeded reduced-form indexed grammars (<=4 non-terminals, <=2 indices, <=8 rules; several consumption "
        "rules for one (index, non-terminal); recursion through the stack; end rules on epsilon; start variable S or "
        "another non-terminal) x ALL nine optim values x a seeded "
        "sample of rule-list permutations (12 quick / 60 thorough; all when <=4 rules) with `random` seeded x "
        "PYTHONHASHSEED; verdict of is_empty / bool / second call / after remove_useless_rules against the exact "
        "table fixpoint; intersection with a seeded automaton against the reference product; non-trivial = "
        "grammar has a production and a consumption rule; distinct = (rule-set digest, permutation sample seed)")
ASSUMPTIONS = ["non-terminals and terminals are different values (the library has no classes to tell them apart); a "
               "non-terminal named like the product construction's own 'T' / 'S' is in the workload, names spelled like "
               "its printed tuples are not"]
NT = ["S", "A", "T", "B"]
IDX = ["f", "g"]
TERM = ["a", "b"]
INTER_BUDGET = 1500000


def gen(rng, tier):
    sc = SC.maybe(rng, ID)
    if sc is not None:
        return sc
    nts = NT[:rng.randint(2, 4)]
    idx = IDX[:rng.randint(1, 2)]
    rules = []
    weights = rng.pick(["EPCD", "EEPPCCD", "EPPCCCDD", "EPCDD"])
    for _ in range(rng.randint(2, 8)):
        k = rng.pick(weights)
        if k == "E":
            r = ["E", rng.pick(nts), rng.pick(TERM + ["epsilon"]) if rng.chance(0.3) else rng.pick(TERM)]
        elif k == "P":
            r = ["P", rng.pick(nts), rng.pick(nts), rng.pick(idx)]
        elif k == "C":
            r = ["C", rng.pick(idx), rng.pick(nts), rng.pick(nts)]
        else:
            r = ["D", rng.pick(nts), rng.pick(nts), rng.pick(nts)]
        if r not in rules:
            rules.append(r)
    if rng.chance(0.3):
        # several consumption rules for the same (index, non-terminal) on purpose
        f = rng.pick(idx)
        c = rng.pick(nts)
        for b in rng.sample(nts, min(len(nts), rng.randint(2, 3))):
            r = ["C", f, c, b]
            if r not in rules:
                rules.append(r)
    fa = GF.gen_fa(rng, plain_symbols=True, adversarial=False, allow_int=False, max_states=2, max_trans=4,
                   max_symbols=2, name_pool=(GF.PLAIN_STATES, "str"))
    fa["hash"] = None
    fa["valmode"] = fa["symmode"] = "str"
    fa["symbols"] = [s for s in fa["symbols"] if s in ("a", "b")] or ["a"]
    fa["trans"] = [t for t in fa["trans"] if t[1] is None or t[1] in ("a", "b")]
    fa["extra_symbols"] = []
    if rng.chance(0.3):
        # the regular operand accepts every word over {a, b}: the product is empty exactly when the grammar is, so the
        # product construction is exercised on derivations that push and consume indices
        q = fa["states"][0]
        fa.update(states=[q], trans=[[q, "a", q], [q, "b", q]], starts=[q], finals=[q], symbols=["a", "b"],
                  ghost_trans=None, ghost_final=None, ghost_start=None, eps_string_edge=None, extra_states=[])
    if rng.chance(0.1) and rules:
        rules.append(list(rng.pick(rules)))          # the same rule listed twice
    int_idx = rng.pick([True, True, "all"]) if rng.chance(0.3) else False      # index symbols (and, for "all", every symbol) as ints
    start = "S" if rng.chance(0.8) else rng.pick(nts)
    return {"rules": rules, "start": start, "int_idx": int_idx, "perm_seed": rng.getrandbits(30), "nperm": 12 if tier == "quick" else 60,
            "fa": GF.fix_kind(fa), "with_intersection": rng.chance(0.5) and len(rules) <= 6}


def shrink(case):
    if SC.is_scaled(case):
        return iter(())
    return _shrink(case)


def _shrink(case):
    rs = case["rules"]
    for i in range(len(rs)):
        yield dict(case, rules=rs[:i] + rs[i + 1:])
    if case["nperm"] > 1:
        yield dict(case, nperm=max(1, case["nperm"] // 2))
    if case.get("start", "S") != "S":
        yield dict(case, start="S")
    if case.get("int_idx"):
        yield dict(case, int_idx=False)
    if case.get("with_intersection"):
        for c in GF.shrink_fa(case["fa"]):
            if c["valmode"] == "str" and c["symmode"] == "str":
                yield dict(case, fa=c)


IDX_INT = {"f": 1, "g": 2}


NT_INT = {"S": 0, "A": 11, "T": 12, "B": 13}      # 0: a falsy value, also as start variable
TERM_INT = {"a": 1, "b": 2}


def mk(r, int_idx=False):
    """int_idx: True = int index symbols; "all" = int index symbols, int non-terminals and int terminals (0 / 1)"""
    from pyformlang.indexed_grammar import EndRule, ProductionRule, ConsumptionRule, DuplicationRule
    args = list(r[1:])
    if int_idx:
        if r[0] == "P":
            args[2] = IDX_INT[args[2]]
        elif r[0] == "C":
            args[0] = IDX_INT[args[0]]
    if int_idx == "all":
        nt = lambda x: NT_INT.get(x, x)
        if r[0] == "E":
            args = [nt(args[0]), TERM_INT.get(args[1], args[1])]
        elif r[0] == "P":
            args = [nt(args[0]), nt(args[1]), args[2]]
        elif r[0] == "C":
            args = [args[0], nt(args[1]), nt(args[2])]
        else:
            args = [nt(x) for x in args]
    return {"E": EndRule, "P": ProductionRule, "C": ConsumptionRule, "D": DuplicationRule}[r[0]](*args)


def _rules(mine, optim):
    """Rules built from the caller's own list, which the caller empties afterwards (the constructor takes a copy)"""
    from pyformlang.indexed_grammar import Rules
    rules = Rules(mine, optim)
    mine.clear()
    return rules


def _perms(case):
    import itertools
    rs = case["rules"]
    if len(rs) <= 4:
        return [list(p) for p in itertools.permutations(rs)]
    pr = _random.Random(case["perm_seed"])
    out = [list(rs), list(reversed(rs))]
    while len(out) < case["nperm"]:
        p = list(rs)
        pr.shuffle(p)
        out.append(p)
    return out[:max(1, case["nperm"])]


def run(case, out):
    if SC.is_scaled(case):
        return SC.run(case, out)
    from pyformlang.indexed_grammar import IndexedGrammar, Rules
    start = case.get("start", "S")
    ref = M.Ig(case["rules"], start=start)
    lib_start = NT_INT.get(start, start) if case.get("int_idx") == "all" else start
    if case.get("int_idx") == "all":
        out.probe("all_symbols_are_ints")
    want = ref.is_empty()
    if start != "S":
        out.probe("start_variable_is_not_S")
    out.shape = str(sorted(map(tuple, case["rules"])))
    out.sig = str(case["perm_seed"])
    kinds = {r[0] for r in case["rules"]}
    out.nontrivial = "P" in kinds and "C" in kinds
    out.probe("empty" if want else "non_empty")
    cons = {}
    for r in case["rules"]:
        if r[0] == "C":
            cons.setdefault((r[1], r[2]), []).append(r)
    if len({tuple(r) for r in case["rules"]}) < len(case["rules"]):
        out.probe("a_rule_listed_twice")
    if case.get("int_idx"):
        out.probe("int_index_symbols")
    if any(len(v) > 1 for v in cons.values()):
        out.probe("several_consumption_rules_same_index_and_nonterminal")
    if not want and "P" in kinds and not M.Ig([r for r in case["rules"] if r[0] != "P"]).is_empty() is False:
        out.probe("non_empty_through_the_stack")
    perms = _perms(case)
    for optim in range(9):
        for pi, rl in enumerate(perms):
            out.fault("rule_permutation")
            out.fault("optim")
            _random.seed(case["perm_seed"] + pi)      # seam S2: optim=8 shuffles with the global generator

            def build():
                return IndexedGrammar(_rules([mk(r, case.get("int_idx")) for r in rl], optim), lib_start)
            ig = out.call("IndexedGrammar(optim=%d)" % optim, build)
            if ig is FAILED:
                break
            v = out.call("is_empty(optim=%d)" % optim, ig.is_empty)
            if v is FAILED:
                break
            if bool(v) != want:
                out.fail("is_empty:verdict", optim=optim, want=want, got=v, rules=rl)
                break
            v2 = out.call("is_empty.again", ig.is_empty)
            if v2 is not FAILED and bool(v2) != want:
                out.fail("is_empty:second-call-differs", optim=optim, rules=rl)
                break
            if pi < 3:
                b = out.call("bool", lambda: bool(build()))
                if b is not FAILED and b != (not want):
                    out.fail("bool:verdict", optim=optim)
                ig2 = out.call("remove_useless_rules", lambda: build().remove_useless_rules())
                if ig2 is not FAILED:
                    v3 = out.call("remove_useless_rules.is_empty", ig2.is_empty)
                    if v3 is not FAILED and bool(v3) != want:
                        out.fail("remove_useless_rules:verdict-changed", optim=optim, want=want, rules=rl)
                        break
    if case.get("with_intersection"):
        fa_case = dict(case["fa"], symmode="cfg:ig") if case.get("int_idx") == "all" else case["fa"]
        nfa = GF.ref_of(fa_case)
        wanti = M.product_is_empty(ref, nfa, start, tkey=lambda t: GF.ykey(fa_case, t))
        out.probe("intersection_empty" if wanti else "intersection_non_empty")
        for optim in (7, 0, 3):
            _random.seed(case["perm_seed"])
            ig = out.call("IndexedGrammar(optim=%d)" % optim, lambda: IndexedGrammar(
                _rules([mk(r, case.get("int_idx")) for r in case["rules"]], optim), lib_start))
            if ig is FAILED:
                break
            # the same product through the method, `ig & automaton` and `fst & ig`.  (A Regex operand obtained from
            # `to_regex()` was tried and withdrawn: its Thompson automaton has so many states that the cubic product
            # exhausts the step budget -- cost, which C17 does not state, not a wrong verdict.)
            operand = GF.build(fa_case)
            if optim == 0:
                res = out.call("and", lambda: ig & operand)
            elif optim == 3:
                res = out.call("fst.and", lambda: operand.to_fst() & ig)
            else:
                res = out.call("intersection", ig.intersection, operand)
            if res is FAILED:
                break
            # emptiness of the product is exponential in general: a slow answer is inconclusive, not a verdict
            b = LineBudget(INTER_BUDGET)
            try:
                with b:
                    v = out.call("intersection.is_empty", res.is_empty)
                out.lines += b.used
            except BudgetExceeded:
                out.lines += b.used
                out.probe("intersection_emptiness_budget_exhausted_inconclusive")
                break
            if v is not FAILED and bool(v) != wanti:
                out.fail("intersection:verdict", optim=optim, want=wanti, got=v)
                break
