"""C01 Automaton acceptance; determinise / eps-removal / minimise / copy keep the language."""
import itertools
from gens import fa as G
from models import fa as M
from sim.core import FAILED

from props import scaled as SC
ID = "C01"
CASES = {"quick": 2500, "thorough": 40000}
RULE = ("seeded epsilon-NFA/NFA/DFA descriptors (<=5 states, <=3 symbols, <=9 transitions, value pools "
        "plain/int/adversarial merged-name look-alikes) x value-hash schedule x PYTHONHASHSEED; non-trivial = "
        "reference language neither empty nor universal and >=2 states; distinct = (structure digest, observed "
        "set-iteration order signature)")


def gen(rng, tier):
    sc = SC.maybe(rng, ID)
    if sc is not None:
        return sc
    if tier == "thorough" and rng.chance(0.25):
        c = G.gen_fa(rng, max_states=7, max_trans=13)       # larger shapes in the deep tier
    else:
        c = G.gen_fa(rng)
    if c["kind"] in ("nfa", "dfa") and len(c["states"]) >= 1 and rng.chance(0.15):
        # an epsilon move handed to an epsilon-free class under its string spelling: it must be refused
        # (InvalidEpsilonTransition) or, if taken, honoured by accepts()
        c["eps_string_edge"] = [rng.pick(c["states"]), rng.pick(c["states"])]
    return c


def shrink(case):
    if SC.is_scaled(case):
        return iter(())
    return _shrink(case)


def _shrink(case):
    return G.shrink_fa(case)


def _shape_ok(out, op, res, want_det, want_eps_free):
    ref = G.extract(res)
    if want_eps_free and any(a is None for _, a, _ in ref.trans):
        out.fail(op + ":shape:epsilon-left")
    if want_det:
        det_ok = len(ref.starts) <= 1 and all(len(v) <= 1 for v in ref._sym.values()) and not ref._eps
        if not det_ok:
            out.fail(op + ":shape:not-deterministic")
        if out.call(op + ".is_deterministic", res.is_deterministic) is False:
            out.fail(op + ":shape:is_deterministic-false")
    return ref


def run(case, out):
    if SC.is_scaled(case):
        return SC.run(case, out)
    from pyformlang.finite_automaton import (DeterministicFiniteAutomaton, NondeterministicFiniteAutomaton,
                                              EpsilonNFA)
    ref = G.ref_of(case)
    fa = G.build(case)
    if case.get("eps_string_edge"):
        from pyformlang.finite_automaton.transition_function import InvalidEpsilonTransition
        p, q = case["eps_string_edge"]
        out.probe("epsilon_string_offered_to_epsilon_free_class")
        try:
            fa.add_transition(G.sval(case, p), "epsilon", G.sval(case, q))
            ref = M.Nfa(ref.states | {G.skey(case, p), G.skey(case, q)}, ref.alphabet,
                        set(ref.trans) | {(G.skey(case, p), None, G.skey(case, q))}, ref.starts, ref.finals)
            out.probe("epsilon_string_taken")
        except InvalidEpsilonTransition:
            pass
    out.sig = G.signature(fa)
    out.shape = G.shape_digest(case)
    alpha = sorted(set(G.alphabet_keys(case)))
    out.fault("value_hash" if case.get("hash") else "hashseed_only")
    # -- probes --------------------------------------------------------------
    if any(a is None for _, a, _ in ref.trans):
        out.probe("epsilon_move")
    if len(ref.starts) > 1:
        out.probe("several_start_states")
    if not ref.starts:
        out.probe("no_start_state")
    reach = ref.reachable()
    if ref.states - reach:
        out.probe("unreachable_state")
    if reach - ref.coreachable():
        out.probe("dead_state")
    if any(";" in s for s in case["states"]) or any(s in ("TRASH", "Empty", "TrashNode") for s in case["states"]):
        out.probe("merged_name_lookalike")
    lang_empty = ref.is_empty()
    out.nontrivial = (not lang_empty) and len(ref.states) >= 2 and \
        M.distinguish(M.Sub(ref), M.Not(M.WordSet([]), alpha), alpha) is not None
    # -- accepts(w) for every word of length <= n ------------------------------
    n = 4 if len(alpha) >= 4 else 5
    if len(alpha) == 2:
        n = 6
    bad = False
    for ln in range(n + 1):
        for w in itertools.product(alpha, repeat=ln):
            want = ref.accepts(w)
            got = out.call("accepts", fa.accepts, G.word_arg(case, w))
            if got is FAILED:
                bad = True
                break
            if got != want:
                out.fail("accepts:mismatch", word=list(w), want=want, got=got)
                bad = True
                break
        if bad:
            break
    # -- conversions ------------------------------------------------------------
    convs = [("to_deterministic", True, True), ("minimize", True, True), ("copy", False, False)]
    if case["kind"] == "enfa" or any(a is None for _, a, _ in ref.trans):
        convs.append(("remove_epsilon_transitions", False, True))
    for op, want_det, want_eps_free in convs:
        res = out.call(op, getattr(fa, op))
        if res is FAILED:
            continue
        if op in ("to_deterministic", "minimize") and not isinstance(res, DeterministicFiniteAutomaton):
            out.fail(op + ":shape:class")
        if op == "remove_epsilon_transitions" and not isinstance(res, NondeterministicFiniteAutomaton):
            out.fail(op + ":shape:class")
        if op == "copy" and case["kind"] == "dfa" and not isinstance(res, DeterministicFiniteAutomaton):
            out.fail("copy:shape:class")
        rref = _shape_ok(out, op, res, want_det, want_eps_free)
        w = M.distinguish(M.Sub(ref), M.Sub(rref), set(alpha) | rref.alphabet)
        if w is not None:
            out.fail(op + ":language", word=list(w), in_source=ref.accepts(w))
        else:
            # the result's own accepts() must agree with its structure too
            for ln in range(3):
                for wd in itertools.product(alpha, repeat=ln):
                    got = out.call(op + ".accepts", res.accepts, G.word_arg(case, wd))
                    if got is not FAILED and got != ref.accepts(wd):
                        out.fail(op + ":accepts-of-result", word=list(wd))
                        break
        if op == "to_deterministic" and len(rref.states) > 1:
            out.probe("subset_construction_multi_state")
        if op == "minimize" and len(rref.states) < len(reach):
            out.probe("minimisation_merged")
