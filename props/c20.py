"""C20 Export/import round trips and recursive automata reproduce the same machine."""
import itertools
from sim.values import key
from sim.core import FAILED, digest
from models import fa as MF
from models import regex as MR
from models import cfg as MC
from gens import regex as GR

ID = "C20"
CASES = {"quick": 5000, "thorough": 15000}
RULE = ("seeded automata / PDAs / FSTs over a JSON-representable value pool (ints, floats, strings with spaces "
        "and non-ASCII, strings that look like the exporter's helper nodes 'starting_*' / 'INITIAL_STACK_HIDDEN'), "
        "epsilon transitions, several start states, parallel edges, multi-symbol pushes/outputs; seeded grammars "
        "with lower-case variables and capitalised terminals; seeded EBNF texts generated from the regex grammar "
        "with minimal or redundant parentheses x PYTHONHASHSEED (to_networkx / to_text emit in set order); "
        "oracle: structural equality of the re-imported machine, bounded language equality for the text round "
        "trip, exact reference language per non-terminal for the boxes; non-trivial = machine has >=2 "
        "transitions / grammar >=2 productions / EBNF >=2 lines; distinct = descriptor digest")
ASSUMPTIONS = ["transducer states are start states, final states or end points of transitions (an FST has no public "
               "way to hold another state); automata and PDAs may declare further states through the constructor",
               "values are JSON-representable, are not epsilon spellings and do not contain ' -> ' or ' / '",
               "grammar tokens are whitespace-free and contain no quote, '|' or '->'"]

STATE_POOLS = [
    [0, 1, 2, 3],
    ["q0", "q1", "q2", "q3"],
    ["q 0", "é", "starting_q 0", "x"],
    ["starting_0", "0", "starting_starting_0", "INITIAL_STACK_HIDDEN"],
    [0, "0", 2.5, "starting_0"],
    [True, 2, "q", 3.25],
    ["starting_a", "a", "b", "starting_b"],
]
SYM_POOLS = [["a", "b"], [1, 2], ["a b", "ü"], ["a", 1], [0, 1], [False, "x"], [0.0, "y"], ["a->b", "c/d"]]
STACK_POOLS = [["Z", "X"], [0, 1], ["Z 0", "ß"], ["Z", 7], [False, "Z"]]
OUT_POOLS = [["u", "v"], [1, "u"], ["u v", "é"], [0, "u"]]


def gen(rng, tier):
    k = rng.weighted([("fa", 3), ("pda", 3), ("fst", 3), ("text", 3), ("ebnf", 3)])
    if k == "fa":
        sp = rng.pick(STATE_POOLS)
        ns = rng.randint(1, 4)
        states = sp[:ns]
        syms = rng.pick(SYM_POOLS)
        trans = []
        for _ in range(rng.randint(0, 7)):
            a = None if rng.chance(0.2) else rng.randrange(len(syms))
            t = [rng.randrange(ns), a, rng.randrange(ns)]
            if t not in trans:
                trans.append(t)
        return {"kind": "fa", "states": states, "syms": syms, "trans": trans,
                "starts": [i for i in range(ns) if rng.chance(0.4)] or [0],
                "finals": [i for i in range(ns) if rng.chance(0.4)], "declare": rng.chance(0.3)}
    if k == "pda":
        sp = rng.pick(STATE_POOLS)
        ns = rng.randint(1, 3)
        states = sp[:ns]
        syms = rng.pick(SYM_POOLS[:7])
        stack = rng.pick(STACK_POOLS)
        trans = []
        for _ in range(rng.randint(1, 6)):
            a = None if rng.chance(0.3) else rng.randrange(len(syms))
            g = [rng.randrange(len(stack)) for _ in range(rng.randint(0, 3))]
            t = [rng.randrange(ns), a, rng.randrange(len(stack)), rng.randrange(ns), g]
            if t not in trans:
                trans.append(t)
        return {"kind": "pda", "states": states, "syms": syms, "stack": stack, "trans": trans, "start": 0,
                "z0": 0, "finals": [i for i in range(ns) if rng.chance(0.4)], "declare": rng.chance(0.3)}
    if k == "fst":
        sp = rng.pick(STATE_POOLS)
        ns = rng.randint(1, 4)
        states = sp[:ns]
        syms = rng.pick(SYM_POOLS[:7])
        outs = rng.pick(OUT_POOLS)
        trans = []
        for _ in range(rng.randint(0, 6)):
            a = None if rng.chance(0.2) else rng.randrange(len(syms))
            o = [rng.randrange(len(outs)) for _ in range(rng.randint(0, 3))]
            trans.append([rng.randrange(ns), a, rng.randrange(ns), o])
        return {"kind": "fst", "states": states, "syms": syms, "outs": outs, "trans": trans,
                "starts": [i for i in range(ns) if rng.chance(0.4)] or [0],
                "finals": [i for i in range(ns) if rng.chance(0.4)]}
    if k == "text":
        VAR = ["S", "A", "x", "yVar", "B1", "z", "\u00c9t\u00e9", "\u03a9m"]      # incl. non-ASCII capitals
        TER = ["a", "b", "C", "Dog", "c1", "X", "\u00c9a", "\u00e9"]
        vs = ["S"] + rng.sample(VAR[1:], rng.randint(0, 3))
        ts = rng.sample(TER, rng.randint(1, 3))
        prods = []
        for _ in range(rng.randint(1, 6)):
            p = [rng.pick(vs), [rng.pick(vs + ts) for _ in range(rng.pick([0, 1, 2, 2, 3]))]]
            if p not in prods:
                prods.append(p)
        return {"kind": "text", "vars": vs, "terms": ts, "prods": prods,
                "start": "S" if rng.chance(0.7) else rng.pick(vs)}
    toks = ["a", "b", "c", "S", "A", "B"]
    heads = ["S"] + rng.sample(["A", "B"], rng.randint(0, 2))
    lines = []
    for _ in range(rng.randint(1, 5)):
        h = rng.pick(heads)
        t = GR.gen_tree(rng, rng.sample(toks, rng.randint(1, 4)), depth=rng.randint(0, 3))
        if rng.chance(0.1):
            t = ("eps",)
        lines.append([h, t, rng.getrandbits(16)])
    if not any(l[0] == "S" for l in lines):
        lines[0][0] = "S"
    start = "S" if rng.chance(0.75) else rng.pick(sorted({l[0] for l in lines}))
    return {"kind": "ebnf", "lines": lines, "via_regex": rng.chance(0.2), "start": start}


def shrink(case):
    k = case["kind"]
    if k in ("fa", "pda", "fst"):
        tr = case["trans"]
        if case.get("declare"):
            yield dict(case, declare=False)
        for i in range(len(tr)):
            yield dict(case, trans=tr[:i] + tr[i + 1:])
        for f in case["finals"]:
            yield dict(case, finals=[x for x in case["finals"] if x != f])
        if k != "pda":
            for f in case["starts"]:
                yield dict(case, starts=[x for x in case["starts"] if x != f])
        if k in ("pda", "fst"):
            for i, t in enumerate(tr):
                if t[-1]:
                    yield dict(case, trans=tr[:i] + [t[:-1] + [t[-1][:-1]]] + tr[i + 1:])
    elif k == "text":
        ps = case["prods"]
        for i in range(len(ps)):
            yield dict(case, prods=ps[:i] + ps[i + 1:])
        for i, (h, b) in enumerate(ps):
            for j in range(len(b)):
                yield dict(case, prods=ps[:i] + [[h, b[:j] + b[j + 1:]]] + ps[i + 1:])
    else:
        ls = case["lines"]
        for i in range(len(ls)):
            if len(ls) > 1:
                yield dict(case, lines=ls[:i] + ls[i + 1:])
        for i, (h, t, s) in enumerate(ls):
            t = _tt(t)
            for sub in t[1:]:
                if isinstance(sub, tuple):
                    yield dict(case, lines=ls[:i] + [[h, sub, s]] + ls[i + 1:])
            if s:
                yield dict(case, lines=ls[:i] + [[h, t, 0]] + ls[i + 1:])


def _tt(t):
    return tuple(_tt(x) if isinstance(x, (list, tuple)) else x for x in t)


def _text(t, seed, top=True):
    """regex text with minimal parentheses, plus seeded redundant ones and operator spellings"""
    import random
    r = random.Random(seed)

    def go(t, ctx):      # ctx: 0 union level, 1 concatenation level, 2 star operand
        k = t[0]
        if k == "sym":
            s = t[1]
        elif k == "eps":
            s = r.choice(["$", "epsilon"])
        elif k == "empty":
            s = "()"
        elif k == "star":
            s = go(t[1], 2) + "*"
            if ctx == 2:
                s = "(" + s + ")"
        elif k == "cat":
            s = go(t[1], 1) + r.choice([" ", ".", " . "]) + go(t[2], 1)
            if ctx == 2:
                s = "(" + s + ")"
        else:
            s = go(t[1], 0) + r.choice(["|", " | ", "+"]) + go(t[2], 0)
            if ctx >= 1:
                s = "(" + s + ")"
        if r.random() < 0.15:
            s = "(" + s + ")"
        return s
    return go(_tt(t), 0)


# ---------------------------------------------------------------------------
def _multiset(xs):
    d = {}
    for x in xs:
        d[x] = d.get(x, 0) + 1
    return d


def _run_fa(case, out):
    from pyformlang.finite_automaton import EpsilonNFA, Epsilon
    st, sy = case["states"], case["syms"]
    # "declare": all states are handed to the constructor, so some may have no transition and no mark
    fa = EpsilonNFA(states=set(st)) if case.get("declare") else EpsilonNFA()
    for i in case["starts"]:
        fa.add_start_state(st[i])
    for i in case["finals"]:
        fa.add_final_state(st[i])
    for p, a, q in case["trans"]:
        fa.add_transition(st[p], Epsilon() if a is None else sy[a], st[q])

    def snap(x):
        return (sorted(key(s.value) for s in x.states), sorted(key(s.value) for s in x.start_states),
                sorted(key(s.value) for s in x.final_states),
                sorted((key(p.value), "eps" if isinstance(a, Epsilon) else key(a.value), key(q.value)) for p, a, q in x))
    g = out.call("fa.to_networkx", fa.to_networkx)
    if g is FAILED:
        return
    back = out.call("fa.from_networkx", EpsilonNFA.from_networkx, g)
    if back is FAILED:
        return
    a, b = snap(fa), snap(back)
    if a != b:
        which = [n for n, x, y in zip(("states", "starts", "finals", "transitions"), a, b) if x != y]
        out.fail("fa.roundtrip:structure", differs=which, before=str(a)[:300], after=str(b)[:300])
    if any(isinstance(s, str) and s.startswith("starting_") for s in st):
        out.probe("state_named_like_start_helper")
    used = set(case["starts"]) | set(case["finals"]) | {p for p, _, _ in case["trans"]} | {q for _, _, q in case["trans"]}
    if case.get("declare") and len(used) < len(st):
        out.probe("isolated_unmarked_state")
    if any(a_ is None for _, a_, _ in case["trans"]):
        out.probe("epsilon_transition")
    if len(case["starts"]) > 1:
        out.probe("several_start_states")


def _run_pda(case, out):
    from pyformlang.pda import PDA, Epsilon
    from gens.pda import extract
    st, sy, sk = case["states"], case["syms"], case["stack"]
    if case.get("declare") is False and len(case["trans"]) % 2:
        # final marks set one by one through add_final_state instead of the constructor
        pda = PDA(start_state=st[case["start"]], start_stack_symbol=sk[case["z0"]])
        for i in case["finals"]:
            pda.add_final_state(st[i])
    else:
        pda = PDA(start_state=st[case["start"]], start_stack_symbol=sk[case["z0"]],
                  final_states={st[i] for i in case["finals"]}, **({"states": set(st)} if case.get("declare") else {}))
    for p, a, x, q, g in case["trans"]:
        pda.add_transition(st[p], "epsilon" if a is None else sy[a], sk[x], st[q], [sk[i] for i in g])

    def snap(x):
        tr = []
        for (q, a, X), outs in x.to_dict().items():
            for (r, gam) in outs:
                tr.append((key(q.value), "eps" if isinstance(a, Epsilon) else key(a.value), key(X.value),
                           key(r.value), tuple(key(y.value) for y in gam)))
        return (sorted(key(s.value) for s in x.states), key(x.start_state.value) if x.start_state else None,
                sorted(key(s.value) for s in x.final_states), sorted(tr))
    g = out.call("pda.to_networkx", pda.to_networkx)
    if g is FAILED:
        return
    back = out.call("pda.from_networkx", PDA.from_networkx, g)
    if back is FAILED:
        return
    a, b = snap(pda), snap(back)
    if a != b:
        which = [n for n, x, y in zip(("states", "start", "finals", "transitions"), a, b) if x != y]
        out.fail("pda.roundtrip:structure", differs=which, before=str(a)[:300], after=str(b)[:300])
    else:
        z1 = out.call("z0", lambda: g.nodes["INITIAL_STACK_HIDDEN"]["label"])
        z2 = out.call("z0", lambda: back.to_networkx().nodes["INITIAL_STACK_HIDDEN"]["label"])
        if z1 is not FAILED and z2 is not FAILED and z1 != z2:
            out.fail("pda.roundtrip:start-stack-symbol", before=z1, after=z2)
    if any(isinstance(s, str) and s.startswith("starting_") for s in st):
        out.probe("state_named_like_start_helper")
    used = {case["start"]} | set(case["finals"]) | {t[0] for t in case["trans"]} | {t[3] for t in case["trans"]}
    if case.get("declare") and len(used) < len(st):
        out.probe("isolated_unmarked_state")
    if any(len(t[4]) > 1 for t in case["trans"]):
        out.probe("multi_symbol_push")


def _run_fst(case, out):
    from pyformlang.fst import FST
    st, sy, ou = case["states"], case["syms"], case["outs"]
    f = FST()
    for i in case["starts"]:
        f.add_start_state(st[i])
    for i in case["finals"]:
        f.add_final_state(st[i])
    for p, a, q, o in case["trans"]:
        f.add_transition(st[p], "epsilon" if a is None else sy[a], st[q], [ou[i] for i in o])

    def snap(x):
        tr = []
        for (p, a), outs in x.transitions.items():
            for q, o in outs:
                tr.append((key(p), key(a), key(q), tuple(key(y) for y in o)))
        return (sorted(key(s) for s in x.states), sorted(key(s) for s in x.start_states),
                sorted(key(s) for s in x.final_states), sorted(tr))
    g = out.call("fst.to_networkx", f.to_networkx)
    if g is FAILED:
        return
    back = out.call("fst.from_networkx", FST.from_networkx, g)
    if back is FAILED:
        return
    a, b = snap(f), snap(back)
    if a != b:
        which = [n for n, x, y in zip(("states", "starts", "finals", "transitions"), a, b) if x != y]
        out.fail("fst.roundtrip:structure", differs=which, before=str(a)[:300], after=str(b)[:300])
    if any(isinstance(s, str) and s.startswith("starting_") for s in st):
        out.probe("state_named_like_start_helper")
    if len({(t[0], t[1], t[2]) for t in case["trans"]}) < len(case["trans"]):
        out.probe("parallel_edges")


def _run_text(case, out):
    from pyformlang.cfg import CFG, Variable, Terminal, Production
    vs = case["vars"]
    ps = [Production(Variable(h), [Variable(x) if x in vs else Terminal(x) for x in b]) for h, b in case["prods"]]
    st = case.get("start", "S")
    g = CFG(start_symbol=Variable(st), productions=set(ps))
    ref = MC.Cfg(("V", st), [(("V", h), tuple(("V", x) if x in vs else ("T", x) for x in b))
                             for h, b in case["prods"]])
    txt = out.call("to_text", g.to_text)
    if txt is FAILED:
        return
    back = out.call("from_text", CFG.from_text, txt, Variable(st))
    if back is FAILED:
        return
    from gens.cfg import lib_sym
    rb = MC.Cfg(("V", st), [((lib_sym(p.head)[0], str(p.head.value)),
                              tuple((lib_sym(x)[0], str(x.value)) for x in p.body)) for p in back.productions])
    want, got = ref.words_upto(4), rb.words_upto(4)
    if want != got:
        d = sorted(want ^ got, key=lambda w: (len(w), w))
        out.fail("text.roundtrip:language", word=list(d[0]), in_source=d[0] in want, text=txt[:200])
    else:
        # the library's own membership on the re-imported grammar
        for w in list(MC.words_over(sorted(case["terms"]), 3)):
            c = out.call("from_text.contains", back.contains, list(w))
            if c is not FAILED and bool(c) != (w in want):
                out.fail("text.roundtrip:contains-of-result", word=list(w))
                break
    if any(t[0].isupper() for t in case["terms"]):
        out.probe("capitalised_terminal")
    if any(not v[0].isupper() for v in case["vars"]):
        out.probe("lower_case_variable")
    if any(not b for _, b in case["prods"]):
        out.probe("epsilon_production")


def _run_ebnf(case, out):
    from pyformlang.rsa import RecursiveAutomaton
    from pyformlang.regular_expression import Regex
    from gens.fa import extract
    lines = case["lines"]
    by_head = {}
    texts = []
    for h, t, s in lines:
        t = _tt(t)
        by_head.setdefault(h, []).append(t)
        if t == ("eps",) and s % 3 == 0:
            texts.append(h + " -> ")          # an empty right-hand side is an epsilon alternative
        else:
            texts.append(h + " -> " + _text(t, s))
    if case.get("via_regex"):
        h, t, s = lines[0]
        t = _tt(t)
        txt = _text(t, s)
        rx = out.call("Regex", Regex, txt)
        if rx is FAILED:
            return
        rsa = out.call("from_regex", RecursiveAutomaton.from_regex, rx, "S")
        if rsa is FAILED:
            return
        want = {"S": [t]}
        out.probe("from_regex")
    else:
        ebnf = "\n".join(texts) + "\n"
        start = case.get("start", "S")
        if start == "S":
            rsa = out.call("from_ebnf", RecursiveAutomaton.from_ebnf, ebnf)
        else:
            out.probe("start_nonterminal_is_not_S")
            rsa = out.call("from_ebnf", RecursiveAutomaton.from_ebnf, ebnf, start)
        if rsa is FAILED:
            return
        want = by_head
        out.probe("from_ebnf")
        if any(len(v) > 1 for v in by_head.values()):
            out.probe("head_with_several_lines")
    nb = out.call("get_number_boxes", rsa.get_number_boxes)
    if nb is not FAILED and nb != len(want):
        out.fail("rsa:number-of-boxes", want=len(want), got=nb)
    for h, trees in sorted(want.items()):
        box = out.call("get_box_by_nonterminal", rsa.get_box_by_nonterminal, h)
        if box is FAILED:
            continue
        if box is None:
            out.fail("rsa:missing-box", head=h)
            continue
        t = trees[0]
        for u in trees[1:]:
            t = ("alt", t, u)
        refn = MR.to_nfa(GR.map_syms(t, lambda s: "s:" + s))
        got = extract(box.dfa)
        w = MF.distinguish(MF.Sub(refn), MF.Sub(got), set(refn.alphabet) | set(got.alphabet) | {"s:zz"})
        if w is not None:
            out.fail("rsa:box-language", head=h, word=list(w), in_reference=refn.accepts(w),
                     text=[x for x in texts if x.startswith(h + " ")][:3])
    sb = out.call("start_box", lambda: rsa.start_box)
    if sb is not FAILED and sb is not None:
        want_start = "S" if case.get("via_regex") else case.get("start", "S")
        if str(sb.nonterminal.value) != want_start:
            out.fail("rsa:start-box", got=str(sb.nonterminal.value), want=want_start)


def run(case, out):
    out.shape = digest(case)
    out.fault("hashseed_only")
    k = case["kind"]
    out.probe("kind_" + k)
    if k == "fa":
        out.nontrivial = len(case["trans"]) >= 2
        _run_fa(case, out)
    elif k == "pda":
        out.nontrivial = len(case["trans"]) >= 2
        _run_pda(case, out)
    elif k == "fst":
        out.nontrivial = len(case["trans"]) >= 2
        _run_fst(case, out)
    elif k == "text":
        out.nontrivial = len(case["prods"]) >= 2
        _run_text(case, out)
    else:
        out.nontrivial = len(case["lines"]) >= 2
        _run_ebnf(case, out)
