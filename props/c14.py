"""C14 LL(1): FIRST/FOLLOW, the LL(1) verdict and the table-driven parser are correct."""
from gens import cfg as G
from models import cfg as M
from sim.core import FAILED

ID = "C14"
CASES = {"quick": 3000, "thorough": 25000}
RULE = ("seeded grammars pruned to useful symbols by the reference (nullable variables, nullable non-empty "
        "bodies, common prefixes, left recursion; an LL(1)-biased generator gives ~half LL(1) grammars) x "
        "value-hash schedule x PYTHONHASHSEED (FIRST/FOLLOW worklists are seeded in set order); FIRST, FOLLOW "
        "and the verdict against textbook fixpoints; for LL(1) grammars every word <=5 (4) plus proper prefixes "
        "and one-symbol extensions of members: tree iff member else NotParsableException; non-trivial = LL(1) "
        "with >=2 words or non-LL(1) with a conflict; distinct = (grammar digest, order signature)")
ASSUMPTIONS = ["grammars have no useless symbols (as the property states) and disjoint variable/terminal values"]


def gen_ll1ish(rng):
    """grammars built to be LL(1) more often: distinct leading terminals per alternative"""
    nv = rng.randint(1, 3)
    vs = G.VARS[:nv]
    ts = G.TERMS[:rng.randint(1, 3)]
    prods = []
    for v in vs:
        leads = list(ts)
        rng.shuffle(leads)
        k = rng.randint(1, len(leads))
        for t in leads[:k]:
            tail = [rng.pick(vs + ts) for _ in range(rng.weighted([(0, 3), (1, 4), (2, 2)]))]
            prods.append([v, [t] + tail])
        r = rng.random()
        if r < 0.35:
            prods.append([v, []])
        elif r < 0.5 and len(vs) > 1:
            # nullable non-empty body
            o = rng.pick([x for x in vs if x != v])
            prods.append([v, [o] * rng.randint(1, 2)])
            if [o, []] not in prods:
                prods.append([o, []])
    mode = rng.pick(G.HASH_MODES)
    names = ["N:" + x for x in sorted(set(vs + ts + [G.FOREIGN]))]
    return {"vars": vs, "terms": ts, "start": vs[0], "prods": prods, "valmode": "str" if mode == "plain" else "V",
            "hash": G.assign_hashes(rng, names, mode), "hashmode": mode, "profile": "ll1ish", "ctor_sets": False,
            "words_as_terminals": rng.weighted([(False, 5), (True, 3), ("mixed", 2)])}


def _dollar(rng, c):
    """a user terminal spelled like the parser's end-of-input marker"""
    if c["terms"] and rng.chance(0.1):
        t = rng.pick(c["terms"])
        ren = lambda x: "$" if x == t else x
        c = dict(c, terms=[ren(x) for x in c["terms"]], prods=[[h, [ren(x) for x in b]] for h, b in c["prods"]])
        if c.get("hash"):
            c["hash"] = dict(c["hash"])
            c["hash"]["N:$"] = c["hash"].get("N:" + t, 5)
    return c


def gen(rng, tier):
    for _ in range(20):
        c = gen_ll1ish(rng) if rng.chance(0.6) else G.gen_cfg(rng, max_prods=6)
        c = G.prune_useless(c)
        if c is not None and c["prods"]:
            return _dollar(rng, c)
    return {"vars": ["S"], "terms": ["a"], "start": "S", "prods": [["S", ["a"]]], "valmode": "str", "hash": None,
            "hashmode": "plain", "profile": "fallback", "ctor_sets": False}


def shrink(case):
    for c in G.shrink_cfg(case):
        p = G.prune_useless(c)
        if p is not None and p["prods"] and p["prods"] == c["prods"]:
            yield c


def _conv_set(s, end="$"):
    from pyformlang.cfg import Epsilon
    out = set()
    for x in s:
        if isinstance(x, Epsilon):
            out.add(None)
        elif isinstance(x, str) and x == "$":
            out.add(end)
        else:
            out.add(G.lib_sym(x))
    return out


def run(case, out):
    from pyformlang.cfg import CFG
    from pyformlang.cfg.llone_parser import LLOneParser
    from pyformlang.cfg.cfg import NotParsableException
    from pyformlang.cfg.parse_tree import ParseTree
    ref = G.ref_of(case)
    out.shape = G.shape_digest(case)
    out.fault("value_hash" if case.get("hash") else "hashseed_only")
    END = ("$",)
    nul, first, follow = M.first_follow(ref, END)
    ll1 = M.is_ll1(ref, END)
    out.probe("ll1" if ll1 else "not_ll1")
    if nul:
        out.probe("nullable_variable")
    if any(b and all(x in nul for x in b) for _, b in ref.prods):
        out.probe("nullable_nonempty_body")
    if any(b and b[0] == h for h, b in ref.prods):
        out.probe("left_recursion")
    if "$" in case["terms"]:
        out.probe("terminal_spelled_like_end_marker")
    cfg = G.build(case)
    out.sig = G.signature(cfg)
    fs = out.call("get_first_set", LLOneParser(cfg).get_first_set)
    if fs is not FAILED:
        for v in sorted(ref.variables):
            want = set(first[v]) | ({None} if v in nul else set())
            got = set()
            for k, s in fs.items():
                if G.lib_sym(k) == v:
                    got = _conv_set(s)
            if got != want:
                out.fail("get_first_set:set", variable=v, want=sorted(map(str, want)), got=sorted(map(str, got)))
                break
    fo = out.call("get_follow_set", LLOneParser(G.build(case)).get_follow_set)
    if fo is not FAILED:
        for v in sorted(ref.variables):
            want = set(follow[v])
            got = set()
            for k, s in fo.items():
                if not isinstance(k, str) and G.lib_sym(k) == v:
                    got = _conv_set(s, END)
            if got != want:
                out.fail("get_follow_set:set", variable=v, want=sorted(map(str, want)), got=sorted(map(str, got)))
                break
    got = out.call("is_llone_parsable", LLOneParser(G.build(case)).is_llone_parsable)
    if got is not FAILED and bool(got) != ll1:
        out.fail("is_llone_parsable:verdict", want=ll1, got=got)
    tks = G.term_keys(case)
    n = 5 if len(tks) <= 2 else 4
    lang = ref.words_upto(n + 1)
    out.nontrivial = (ll1 and len(lang) >= 2) or (not ll1)
    if not ll1:
        return
    words = set(M.words_over(tks, n))
    for w in list(lang):
        if len(w) <= n:
            for t in tks:
                words.add(w + (t,))
    parser = LLOneParser(G.build(case))
    for w in sorted(words, key=lambda w: (len(w), w)):
        member = w in lang if len(w) <= n + 1 else None
        out.ops += 1
        try:
            t = parser.get_llone_parse_tree(G.word_values(case, w))
            if not isinstance(t, ParseTree):
                out.fail("get_llone_parse_tree:not-a-tree", word=list(w))
                break
            if not member:
                out.fail("get_llone_parse_tree:tree-for-non-member", word=list(w))
                break
            if w and any(w[:i] in lang for i in range(len(w))):
                out.probe("member_with_member_prefix")
        except NotParsableException:
            if member:
                out.fail("get_llone_parse_tree:member-refused", word=list(w))
                break
            if any(w[:i] in lang for i in range(len(w))):
                out.probe("input_continues_after_complete_parse")
        except Exception as e:  # any other error is a violation of "never another error"
            out.fail("get_llone_parse_tree:other-exception:" + type(e).__name__, word=list(w), member=member,
                     msg=str(e)[:100])
            break
