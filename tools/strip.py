"""Print a python file without docstrings/blank lines (reading aid only)."""
import sys,ast
for f in sys.argv[1:]:
    src=open(f).read(); tree=ast.parse(src); lines=src.split('\n'); rm=set()
    for n in ast.walk(tree):
        if isinstance(n,(ast.FunctionDef,ast.ClassDef,ast.Module,ast.AsyncFunctionDef)):
            b=n.body
            if b and isinstance(b[0],ast.Expr) and isinstance(getattr(b[0],'value',None),ast.Constant) and isinstance(b[0].value.value,str):
                rm.update(range(b[0].lineno,b[0].end_lineno+1))
    print("#####",f)
    for i,l in enumerate(lines,1):
        if i in rm or not l.strip(): continue
        print(f"{i}\t{l}")
