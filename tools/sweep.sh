#!/bin/sh
# tools/sweep.sh "<seeds>" [tier] [pids...] : run every check under several VERIF_SEED values; prints one line per run
cd "$(dirname "$0")/.." || exit 3
seeds="$1"; tier="${2:-quick}"; shift 2 2>/dev/null
pids="${*:-C01 C02 C03 C04 C06 C08 C09 C10 C11 C12 C13 C14 C15 C16 C17 C18 C19 C20}"
for s in $seeds; do for p in $pids; do
  out=$(VERIF_SEED=$s ./check $p --tier $tier --no-evidence 2>&1); rc=$?
  echo "seed=$s $p rc=$rc $(echo "$out" | grep -c '^VIOLATION') violations; $(echo "$out" | grep explored)"
  echo "$out" | grep -A0 -B1 '^VIOLATION' | grep clause
  if [ $rc -ne 0 ]; then mkdir -p sweep-replays/$s; cp -r replays/$p sweep-replays/$s/ 2>/dev/null; fi
done; done
