#!/venv/bin/python
"""Regenerates section 10 of DESIGN.md from seeded/*/meta.json (the prose around the table lives here)."""
import json, glob
rows = []
for d in sorted(glob.glob('/verif/seeded/*/meta.json')):
    m = json.load(open(d))
    rows.append((m['id'], m['property_broken'], ", ".join(m['caught_by']) or "-", ", ".join(m['missed_by']) or "-",
                 m['needs_to_manifest']))
txt = "\n## 10. Which checks catch which seeded changes\n\n"
txt += ("%d changes were written by independent sub-agents in ten rounds, each agent given only the text of one\n"
        "property and a scratch worktree of /repo (nothing from /verif), and asked for a change that compiles, passes the\n"
        "289 pinned tests and needs something specific to manifest (the third round was told to avoid name collisions and\n"
        "missing copies, and to look for early-stopping fixpoints, incrementally updated caches, asymmetric operands,\n"
        "boundary cases and helpers shared by two callers; the fifth to look at subclass overrides, operator forms,\n"
        "constructor-argument paths, values of different types and falsy values; the sixth the same for the other half of the\n"
        "properties; the seventh at early-return fast paths, mutator methods, argument forms -- list / set / tuple / one-shot\n"
        "iterator --, `is` versus `==`, `x or default` on falsy values, lazily bound loop variables, drifting symmetrical\n"
        "code paths; the eighth at non-termination and exponential blow-up, non-string values (ints, tuples, falsy values),\n"
        "`__eq__` / `__hash__` of the small value classes, declared-but-unused parts of an object, aliasing of collections\n"
        "passed by the caller; the ninth the same for the other half of the properties; the tenth at defects that need two features of the\n"
        "input at once, at results of operations used as operands, at bounds and partly consumed generators, at the empty\n"
        "object of each class). Each was confirmed here in a scratch worktree of /repo HEAD\n"
        "(`tools/seedcheck.sh`: the suite passes with the change, the demonstration fails with it and passes without it)\n"
        "and is kept under `/verif/seeded/<id>/` (`patch.diff`, `demo.py`, `notes.md`, `meta.json` with what was run).\n"
        "Patches that later fix commits had made inapplicable were rebased by hand onto the final tree (`meta.json` says so\n"
        "and the sub-agent's original is kept as `patch.before-rebase.diff`): every `patch.diff` applies to /repo HEAD. To run a check\n"
        "against one: `git -C /repo apply seeded/<id>/patch.diff; ./check <PID>; git -C /repo checkout -- .`\n\n"
        "| seeded change | breaks | caught by (quick tier) | not seen by | needs |\n|---|---|---|---|---|\n") % len(rows)
for r in rows:
    txt += "| %s | %s | %s | %s | %s |\n" % (r[0], r[1], r[2], r[3], r[4].replace("|", "/"))
txt += '''
All of them are caught by at least one check. "not seen by" lists checks that were also run and stayed silent, usually
the per-operation check of the property when the change is a history defect: those checks build a fresh object per
operation by design, so that a history defect is never mis-attributed, and C19 owns histories.

Changes that the first version of the checks missed, and the strengthening each led to (every strengthening was
re-verified on the unchanged tree over several `VERIF_SEED` values):

* C01-stale-eclose-cache, C16-translate-productive-cache: C19 mutators now include an epsilon move under its string
  spelling, `remove_transition`, and two-step paths through a fresh state; scenario templates `eps_edit`, `fst_grow`.
* C04-deterministic-after-edit: the automaton workload replays add-then-remove edits (`ghost_trans`, `ghost_final`)
  while building, so every automaton property sees editing history, not only C19.
* C09-fresh-name-rewind: profile `cnf_names` (a user variable spelled `C#CNF#n`, a long body stopping on a shared
  suffix, a later long body).
* C13-to-pda-variable-terminal-conflated, C15-earley-waiting-index: an `alias` field lets a variable carry the same
  *value* as a terminal while staying a different grammar symbol; used by C13 (`to_pda`) and by the Earley part of C15,
  only for grammars in which no two productions differ merely by that kind (a set cannot hold both; on other such
  grammars the pinned library itself misbehaves -- `to_normal_form` recurses forever -- which is why the remaining
  grammar checks keep the two value sets disjoint, as the definition of a grammar does).
* C10-sequential-substitution: a second, two-key simultaneous substitution in both dictionary orders.
* C14-end-marker-collides-with-terminal: a terminal spelled `$` in the workload.
* C16-r3-coaccessible-cache, C01-r3-eclose-cache-source-only, C17-r3 / C19-r3 history defects: right after (some)
  mutations C19 now compares the *library's* answers on the probe set between the edited live object and a fresh replica
  that received the same edits (`I2:edited-object-answers-differ-from-fresh-replica`); the observation is made only
  after about half of the edits, since querying after every edit hides defects that need two edits in a row
  (C19-r3-marks-invalidated-by-count).
* C11-r3-pda-transition-index, C13-r3-to-cfg-cache: PDA mutators `add_transition` under an existing key,
  `set_start_state`, `set_start_stack_symbol`; scenario templates `pda_reintersect`, `pda_reconvert`.
* C13-r3-final-state-index: C13 now converts the *results* of conversions again (all four second-level chains), the
  reference of the second conversion being the extraction of the intermediate PDA.
* Round 5 (subclass overrides, operator forms, constructor paths, mixed types): automata and PDAs are now also built by
  handing a ready-made transition function (with its own State / Symbol objects) to the constructor -- which exposed
  defect FX-34 in the pinned library -- ; C11 tries the refused operand through `&` as well; C16 applies operations to
  the results of operations and has transducers with int and str state names; the grammar workload has terminals of
  mutually incomparable types; EBNF lines may have an empty right-hand side. One round-5 change (`to_fst` walking the
  declared sets instead of the transition function) stopped being a defect once fix FX-34 made the constructor register
  the transition function's content, and is not kept.
* Rounds 6 and 7: terminals that print alike (`1`, `"1"`, `"1 1"`) in the C12 / C08 grammars
  (C12-r6-get-words-dedup-by-text); states that print alike (`1` and `"1"`) in the automaton workload
  (C06-r6-elimination-keyed-by-printed-name); C15's R-TREE validation of the LL(1) tree of the empty word is what catches
  C14-r6-empty-word-bare-root (C14 itself only checks accept / refuse, as its property states); words are handed to
  `accepts()` as lists, tuples or one-shot iterators (C01-r7-precheck-consumes-one-shot-word); PDAs are also declared
  with epsilon listed in the constructor's input alphabet, by name or as an object, as the repository's own tests do
  (C11-r7-epsilon-identity-test); a start mark that is set and removed again (`remove_start_state`) and bulk
  `add_transitions` joined the build variations. One round-6 change (isomorphism sort key by type name) no longer applies
  after fix FX-37 rewrote that function, and is not kept; two identical changes of rounds 1 and 5 (`PDAObjectCreator`
  filling its tables in another order) relied on `Variable('a') == Terminal('a')` and stopped being defects with fix
  FX-40, and are not kept either. Looking at what these two rounds varied also exposed two more
  defects of the pinned library itself (FX-37: `is_equivalent_to` sorted symbols of incomparable types; FX-38:
  `substitute` with non-string variable values).
* Round 8: a chain of k diamonds (one word, 2^k runs) joined the C04 workload, so that an enumeration that stops merging
  runs fails the bounded-liveness clause (C04-r8-enumeration-exponential-runs); grammars are built with the start symbol
  handed over as a plain value, and C08 / C12 have int-valued variables (start symbol 0, a falsy value:
  C08-r8-falsy-start-symbol); tuple-valued terminals -- letters of a product alphabet -- in C13 / C11 / C08
  (C13-r8-terminal-name-by-format); automata with int and str state values as C11's regular operand
  (C11-r8-states-sorted-by-value).
* Round 9 (eleven of eighteen missed at first -- the round's themes were the harness' weakest side): the builders now
  hand the constructors the caller's *own* collections (sets of ready-made `State` / `Symbol` / `Variable` / `Terminal`
  objects, the same set object for `states` and `final_states` when they coincide, body lists, the `Rules` list) and
  empty them once the object is built, and use tuple bodies in part of the cases (C01-r9-constructor-keeps-caller-sets,
  C09-r9-..., C12-r9-... / C15-r9-... / C19-r9-production-keeps-body-list); a DFA edit that must be refused with
  `DuplicateTransitionError` is attempted and the automaton used afterwards (C01-r9-refused-transition-written); the
  all-int indexed grammars start from the variable `0` (C17-r9-falsy-start-variable); C06 has int symbols, compared with
  the regular expression's printed spelling (C06-r9-falsy-self-loop-symbol); and the *scaled shapes* of section 4 were
  introduced for the four changes that keep every answer right but need 2^n / 3^n steps
  (C09-r9-remove-epsilon-exponential, C12-r9-get-words-per-tree, C15-r9-cyk-node-eq-compares-sons,
  C17-r9-addrec-ter-product-no-memo). C19-r9-production-keeps-body-list is seen by C12 / C15 / C08 and not by C19: its
  live object and its fresh replica are built by the same builder, so a construction-time defect is common to both.
* Round 10 (two of eighteen missed at first): C12 now also puts its questions to the grammars the library builds itself
  (`eliminate_unit_productions` and `remove_epsilon` return production *lists* with repetitions:
  C12-r10-counters-keyed-by-production), C20's text round trip has variable and terminal names that start with a
  non-ASCII capital (C20-r10-var-marker-non-ascii-capital). Added while the round ran, and used by it: C03 applies a
  second operation to the result of a first one, the reference being the extraction of the first result
  (C03-r10-complement-of-startless-dfa is seen through it), C11 intersects the intersection again. A side remark of
  the C19 agent about the unmodified library became FX-46 (yielded words shared with the enumeration).
* Round 11 (removal / re-adding, exceptions half-way through an operation, equal-but-not-identical objects, "the
  first element of a set", two input features at once; one of sixteen missed at first): the grammar workloads hand
  words over as raw values, as `Terminal` objects or as a *mixture* of both in one word, which of the two comes first
  alternating with the word's length (C14-r11-word-wrapped-by-first-element; C14's own LL(1)-biased generator had
  raw words only). The other fifteen were caught as the checks stood (refused DFA edit that still overwrites, two
  Hopcroft work-list simplifications seen by C01 and C02 alike, partition-group representatives, two `to_regex`
  changes, `pda.intersection` keeping one start state of an NFA operand, `cfg.intersection` pruning states it still
  targets, FOLLOW via `body.index`, CYK root through a set intersection, the Earley predictor comparing the wrong
  position -- seen by C15 through an invalid tree and by C18 through the verdict --, two indexed-grammar changes that
  need a duplication rule `X -> B B` / a particular listing order of consumption rules, `unify` adopting a copy,
  the completer's hoisted copy). A side remark of the C18 agent about the unmodified library became FX-50
  (`|` alternatives in `FCFG.from_text`), and C18's text form now uses `|`.
* FX-26 (stale converter index, re-introduced by `./selftest regressions`): scenario template `reintersect` with a
  four-state DFA whose state set re-hashes when a fifth state is added.

`./selftest regressions` re-introduces each of the repaired defects alone (reverse patch on a scratch copy) and
requires the owning check to report it again: 49 of 50 re-found in the quick tier; with FX-40 reverted (`Variable(x) == Terminal(x)` in one direction only) the C11 check no longer gets as far as a VIOLATION line -- its workers exceed the wall cap and the check ends with HARNESS-TIMEOUT, exit 3, which is not a pass but not the attributed report it was when the fix was made; open item, most likely a case of the grown C11 workload that loops inside one library call on that tree (last run on the final code; twice
a later workload change had made an earlier repair invisible -- FX-24 after the importer fix, FX-36 after a pool
change -- and the workload was adjusted until it was found again). `./selftest sensitivity` applies a
catalogue of 48 hand-written one-place mutants (all caught) and 14 behaviour-preserving control edits of internal names, numbering and enumeration order (all quiet) (one mutant of the first catalogue was replaced and one re-qualified after
analysis: keeping useless duplication rules cannot change emptiness (equivalent), and the
inverted chart-subsumption filter is invisible on flat structures without re-entrancy but caught once one variable
links two features -- the workload extension that also found defect FX-31). `./selftest determinism`: for every property and three `VERIF_SEED` values the per-hash-seed event
digests of runs at 16, 4 and 7 workers (the last under a different parent PYTHONHASHSEED) are identical (54 of 54).
`./selftest oracles`: every reference model agrees with a second, independent method on a seeded sample.
'''
s = open('/verif/DESIGN.md').read()
if "\n## 10. Which checks" in s:
    s = s[:s.index("\n## 10. Which checks")]
open('/verif/DESIGN.md', 'w').write(s + txt)
print(len(rows), "rows")
