#!/bin/sh
# tools/seedcheck.sh <bugdir> <PID> [more PIDs]: confirm a seeded change in a scratch worktree of /repo HEAD and run checks against it
bug="$1"; shift
wt=/tmp/seedcheck-$$
git -C /repo worktree add -q --detach $wt HEAD || exit 3
trap 'git -C /repo worktree remove --force $wt >/dev/null 2>&1; rm -rf $wt' EXIT
cd $wt
clean_demo=$(PYTHONPATH=$wt timeout 300 /venv/bin/python $bug/demo.py >/dev/null 2>&1; echo $?)
if ! git apply $bug/patch.diff 2>/tmp/seedcheck.err; then
  if ! git apply --3way $bug/patch.diff 2>>/tmp/seedcheck.err; then echo "PATCH-DOES-NOT-APPLY $(head -3 /tmp/seedcheck.err)"; exit 2; fi
fi
suite=$(PYTHONPATH=$wt timeout 900 /venv/bin/python -m pytest -q -p no:cacheprovider --timeout=900 2>&1 | tail -1)
bug_demo=$(PYTHONPATH=$wt timeout 300 /venv/bin/python $bug/demo.py >/dev/null 2>&1; echo $?)
echo "suite: $suite | demo clean rc=$clean_demo | demo with change rc=$bug_demo"
cd /verif
for p in "$@"; do
  out=$(VERIF_REPO=$wt ./check $p --no-evidence 2>&1); rc=$?
  echo "check $p rc=$rc: $(echo "$out" | grep -B1 '^VIOLATION' | grep clause | head -3 | tr '\n' ' ')"
done
