#!/venv/bin/python
"""tools/seed_register.py <srcdir> <seed-id> <property> <needs text> <check> [<check>...]
Confirms a seeded change in a scratch worktree of /repo HEAD (suite passes with it, demo fails with it and
passes without it), runs the named checks against it, and files it under /verif/seeded/<seed-id>/."""
import json, os, shutil, subprocess, sys
src, sid, prop, needs = sys.argv[1:5]
checks = sys.argv[5:]
dst = os.path.join("/verif/seeded", sid)
os.makedirs(dst, exist_ok=True)
patch = os.path.join(src, "patch.rebased.diff") if os.path.exists(os.path.join(src, "patch.rebased.diff")) else os.path.join(src, "patch.diff")
shutil.copy(patch, os.path.join(dst, "patch.diff"))
shutil.copy(os.path.join(src, "demo.py"), os.path.join(dst, "demo.py"))
if os.path.exists(os.path.join(src, "notes.md")):
    shutil.copy(os.path.join(src, "notes.md"), os.path.join(dst, "notes.md"))
r = subprocess.run(["/verif/tools/seedcheck.sh", dst] + checks, capture_output=True, text=True)
out = r.stdout.strip().splitlines()
print("\n".join(l[:300] for l in out))
head = subprocess.check_output(["git", "-C", "/repo", "log", "-1", "--format=%h"]).decode().strip()
meta = {"id": sid, "property_broken": prop, "origin": "independent sub-agent given only the property text and a scratch worktree",
        "needs_to_manifest": needs, "applies_to_repo_commit": head,
        "confirmed": {"commands": ["git apply patch.diff (scratch worktree of /repo HEAD)",
                                   "PYTHONPATH=<wt> /venv/bin/python -m pytest -q -p no:cacheprovider --timeout=900",
                                   "PYTHONPATH=<wt> /venv/bin/python demo.py  (with and without the change)"] +
                                  ["VERIF_REPO=<wt> ./check %s --tier quick" % c for c in checks],
                      "result_lines": [l[:400] for l in out]},
        "caught_by": [c for c in checks if any(l.startswith("check %s rc=1" % c) for l in out)],
        "missed_by": [c for c in checks if any(l.startswith("check %s rc=0" % c) for l in out)]}
json.dump(meta, open(os.path.join(dst, "meta.json"), "w"), indent=1)
