#!/venv/bin/python
"""tools/reach.py [N] [PID ...]: which lines of the library do the workloads of the checks actually execute?

Runs N generated cases (default 400) of every claimed property in one process each (PYTHONHASHSEED 0..; same
generators, same `run_case` as the workers) under coverage.py's C tracer, combines the data and prints, per
library module, the share of executed statements and the functions in which nothing at all was executed.  It is a
reach measurement for DESIGN section 6 ("a probe stuck at zero means the workload must change"), not a check: it
decides nothing and is not registered in MANIFEST.json."""
import json, os, subprocess, sys, tempfile, shutil, ast

HERE = os.path.dirname(os.path.dirname(os.path.abspath(__file__)))
REPO = os.environ.get("VERIF_REPO", "/repo")


def child(pid, n, datafile):
    import coverage
    cov = coverage.Coverage(data_file=datafile, source=[os.path.join(REPO, "pyformlang")], omit=["*/tests/*"])
    cov.start()
    sys.path.insert(0, HERE)
    from sim.core import load_prop, run_case, Rng, derive
    prop = load_prop(pid)
    hs = int(os.environ.get("PYTHONHASHSEED", "0"))
    for i in range(n):
        for tier in ("quick", "thorough") if i % 4 == 0 else ("quick",):
            rng = Rng(derive(0, pid, hs, i))
            try:
                case = prop.gen(rng, tier)
                run_case(prop, case, wall=60.0, confirm=False)
            except Exception:
                pass
    cov.stop()
    cov.save()


def functions(path):
    tree = ast.parse(open(path).read())
    out = []
    for node in ast.walk(tree):
        if isinstance(node, (ast.FunctionDef, ast.AsyncFunctionDef)):
            out.append((node.name, node.lineno, node.end_lineno))
    return out


def main():
    args = sys.argv[1:]
    if args and args[0] == "--child":
        child(args[1], int(args[2]), args[3])
        return
    n = int(args[0]) if args and args[0].isdigit() else 400
    pids = [a for a in args if not a.isdigit()]
    if not pids:
        pids = [c["property_id"] for c in json.load(open(os.path.join(HERE, "MANIFEST.json")))["checks"]]
    tmp = tempfile.mkdtemp(prefix="reach-")
    try:
        procs = []
        for k, pid in enumerate(pids):
            for hs in (k, k + 100):
                env = dict(os.environ, PYTHONHASHSEED=str(hs), PYTHONPATH=REPO + ":" + HERE, PYTHONDONTWRITEBYTECODE="1")
                procs.append(subprocess.Popen([sys.executable, __file__, "--child", pid, str(n),
                                               os.path.join(tmp, "cov.%s.%d" % (pid, hs))], env=env))
        for p in procs:
            p.wait()
        import coverage
        cov = coverage.Coverage(data_file=os.path.join(tmp, "combined"))
        cov.combine([os.path.join(tmp, f) for f in os.listdir(tmp) if f.startswith("cov.")])
        data = cov.get_data()
        tot_s = tot_m = 0
        rows = []
        for f in sorted(data.measured_files()):
            if "/tests/" in f or not f.startswith(REPO):
                continue
            _, stmts, _, missing, _ = cov.analysis2(f)
            tot_s += len(stmts)
            tot_m += len(missing)
            ms = set(missing)
            ss = set(stmts)
            dead = []
            for name, a, b in functions(f):
                body = [l for l in ss if a < l <= b]
                if body and all(l in ms for l in body):
                    dead.append(name)
            rows.append((f[len(REPO) + 1:], len(stmts), len(missing), dead, missing))
        for f, s, m, dead, missing in rows:
            print("%-62s %4d stmts %5.1f%% executed%s" % (f, s, 100.0 * (s - m) / max(s, 1),
                                                         ("  never entered: " + ", ".join(dead)) if dead else ""))
            if os.environ.get("REACH_LINES") and missing:
                print("      missing lines:", ",".join(map(str, missing)))
        print("TOTAL %d statements, %.1f%% executed by the workloads of %d properties (%d cases each x 2 hash seeds)"
              % (tot_s, 100.0 * (tot_s - tot_m) / max(tot_s, 1), len(pids), n))
    finally:
        shutil.rmtree(tmp, ignore_errors=True)


if __name__ == "__main__":
    main()
